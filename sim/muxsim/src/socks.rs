//! E3 stream-fault simulator for C18: the SOCKS readers/writers of `penguin-socks` are polled
//! against a scripted byte stream whose chunk boundaries, `Pending` points, EOF (= connection cut at
//! that byte), I/O errors and short writes are all decided by the plan. Expected results come
//! from a reference grammar written from RFC 1928 and the SOCKS4/4a memo, not from the crate.

use serde::{Deserialize, Serialize};
use simcore::prng::Digest;
use simcore::{Outcome, Sched};
use std::future::Future;
use std::io;
use std::net::{IpAddr, Ipv4Addr, Ipv6Addr, SocketAddr};
use std::pin::Pin;
use std::sync::Arc;
use std::sync::atomic::{AtomicU64, Ordering};
use std::task::{Context, Poll, Wake, Waker};
use tokio::io::{AsyncBufRead, AsyncRead, AsyncWrite, ReadBuf};

#[derive(Serialize, Deserialize, Clone, Debug, PartialEq)]
pub enum EndMode {
    /// after the served bytes: end-of-stream
    Eof,
    /// after the served bytes: an I/O error
    Err,
    /// after the served bytes: pending forever (the peer keeps the connection open and silent)
    Open,
}
#[derive(Serialize, Deserialize, Clone, Debug)]
pub struct IoScript {
    /// sizes of successive read chunks (cycled); 0 = a spurious Pending with immediate wake
    pub chunks: Vec<usize>,
    /// number of bytes of the input that are served at all (cut offset); >= len = everything
    pub cut: usize,
    pub end: EndMode,
    /// per write call: how many bytes are accepted (cycled); 0 = Pending with immediate wake
    pub writes: Vec<usize>,
    /// fail the n-th write call (1-based), 0 = never
    pub write_err_at: usize,
    /// wrap the stream in a tokio BufReader of this capacity (0 = use the script's own AsyncBufRead)
    pub bufreader: usize,
}

pub struct ByteIo {
    data: Vec<u8>,
    pos: usize,
    cur_end: usize,
    s: IoScript,
    ci: usize,
    wi: usize,
    nwrites: usize,
    pub written: Vec<u8>,
    pub flushed: bool,
    pub pend_forever: bool,
}
impl ByteIo {
    pub fn new(data: Vec<u8>, mut s: IoScript) -> Self {
        // a script must make progress: never only spurious Pendings
        if !s.chunks.is_empty() && s.chunks.iter().all(|c| *c == 0) {
            s.chunks.push(1);
        }
        if !s.writes.is_empty() && s.writes.iter().all(|c| *c == 0) {
            s.writes.push(1);
        }
        ByteIo { data, pos: 0, cur_end: 0, s, ci: 0, wi: 0, nwrites: 0, written: vec![], flushed: false, pend_forever: false }
    }
    fn limit(&self) -> usize {
        self.s.cut.min(self.data.len())
    }
    /// the served bytes not yet consumed
    pub fn rest(&self) -> &[u8] {
        let lim = self.limit();
        &self.data[self.pos.min(lim)..lim]
    }
}
impl AsyncBufRead for ByteIo {
    fn poll_fill_buf(self: Pin<&mut Self>, cx: &mut Context<'_>) -> Poll<io::Result<&[u8]>> {
        let this = self.get_mut();
        if this.pos < this.cur_end {
            return Poll::Ready(Ok(&this.data[this.pos..this.cur_end]));
        }
        let lim = this.limit();
        if this.pos >= lim {
            return match this.s.end {
                EndMode::Eof => Poll::Ready(Ok(&[])),
                EndMode::Err => Poll::Ready(Err(io::ErrorKind::ConnectionReset.into())),
                EndMode::Open => {
                    this.pend_forever = true;
                    Poll::Pending
                }
            };
        }
        let n = if this.s.chunks.is_empty() { lim } else { this.s.chunks[this.ci % this.s.chunks.len()] };
        this.ci += 1;
        if n == 0 {
            cx.waker().wake_by_ref();
            return Poll::Pending;
        }
        this.cur_end = (this.pos + n).min(lim);
        Poll::Ready(Ok(&this.data[this.pos..this.cur_end]))
    }
    fn consume(self: Pin<&mut Self>, amt: usize) {
        let this = self.get_mut();
        this.pos = (this.pos + amt).min(this.cur_end);
    }
}
impl AsyncRead for ByteIo {
    fn poll_read(mut self: Pin<&mut Self>, cx: &mut Context<'_>, b: &mut ReadBuf<'_>) -> Poll<io::Result<()>> {
        let got = match self.as_mut().poll_fill_buf(cx) {
            Poll::Ready(Ok(g)) => g,
            Poll::Ready(Err(e)) => return Poll::Ready(Err(e)),
            Poll::Pending => return Poll::Pending,
        };
        let k = got.len().min(b.remaining());
        b.put_slice(&got[..k]);
        self.consume(k);
        Poll::Ready(Ok(()))
    }
}
impl AsyncWrite for ByteIo {
    fn poll_write(self: Pin<&mut Self>, cx: &mut Context<'_>, b: &[u8]) -> Poll<io::Result<usize>> {
        let this = self.get_mut();
        this.nwrites += 1;
        if this.s.write_err_at != 0 && this.nwrites == this.s.write_err_at {
            return Poll::Ready(Err(io::ErrorKind::BrokenPipe.into()));
        }
        let n = if this.s.writes.is_empty() { b.len() } else { this.s.writes[this.wi % this.s.writes.len()] };
        this.wi += 1;
        if n == 0 {
            cx.waker().wake_by_ref();
            return Poll::Pending;
        }
        let k = n.min(b.len());
        this.written.extend(&b[..k]);
        Poll::Ready(Ok(k))
    }
    fn poll_flush(self: Pin<&mut Self>, _cx: &mut Context<'_>) -> Poll<io::Result<()>> {
        self.get_mut().flushed = true;
        Poll::Ready(Ok(()))
    }
    fn poll_shutdown(self: Pin<&mut Self>, _cx: &mut Context<'_>) -> Poll<io::Result<()>> {
        Poll::Ready(Ok(()))
    }
}

/// Poll a future until it completes or nothing will ever wake it (quiescence).
struct CountWake(AtomicU64);
impl Wake for CountWake {
    fn wake(self: Arc<Self>) {
        self.0.fetch_add(1, Ordering::Relaxed);
    }
    fn wake_by_ref(self: &Arc<Self>) {
        self.0.fetch_add(1, Ordering::Relaxed);
    }
}
pub fn drive<F: Future>(f: F, steps: &mut u64) -> Option<F::Output> {
    let mut f = std::pin::pin!(f);
    let cw = Arc::new(CountWake(AtomicU64::new(1)));
    let w = Waker::from(cw.clone());
    let mut cx = Context::from_waker(&w);
    loop {
        if cw.0.swap(0, Ordering::Relaxed) == 0 {
            return None; // pending and nobody will wake it
        }
        *steps += 1;
        if let Poll::Ready(v) = f.as_mut().poll(&mut cx) {
            return Some(v);
        }
        if *steps > 1_000_000 {
            return None;
        }
    }
}

// ------------------------------------------------------------------ reference grammar

#[derive(Serialize, Deserialize, Clone, Debug, PartialEq)]
pub enum Addr {
    V4([u8; 4]),
    V6(Vec<u8>),
    Domain(Vec<u8>),
}
#[derive(Serialize, Deserialize, Clone, Debug)]
pub enum Case {
    /// SOCKS5 request (after method negotiation): VER CMD RSV ATYP ADDR PORT
    V5Request { ver: u8, cmd: u8, rsv: u8, atyp_override: Option<u8>, addr: Addr, port: u16 },
    /// SOCKS4/4a request without the version byte: CD DSTPORT DSTIP USERID NUL [DOMAIN NUL]
    V4Request { cmd: u8, port: u16, ip: [u8; 4], user: Vec<u8>, user_nul: bool, domain: Option<Vec<u8>>, domain_nul: bool },
    V5Auth { methods: Vec<u8>, declared: Option<u8> },
    V5Reply { code: u8, v6: bool, ip: Vec<u8>, port: u16 },
    V5ReplyUnspec { code: u8 },
    V5AuthReply { method: u8 },
    V4Reply { code: u8 },
    UdpBuild { v6: bool, ip: Vec<u8>, port: u16, payload: Vec<u8> },
    UdpParse { frag: u8, atyp: u8, addr: Addr, port: u16, payload: Vec<u8>, truncate: Option<usize> },
}
#[derive(Serialize, Deserialize, Clone, Debug)]
pub struct C18Plan {
    pub case: Case,
    pub trailing: Vec<u8>,
    pub io: IoScript,
}

fn enc_addr(a: &Addr, out: &mut Vec<u8>) -> u8 {
    match a {
        Addr::V4(x) => {
            out.extend(x);
            1
        }
        Addr::V6(x) => {
            let mut b = x.clone();
            b.resize(16, 0);
            out.extend(b);
            4
        }
        Addr::Domain(d) => {
            out.push(d.len().min(255) as u8);
            out.extend(&d[..d.len().min(255)]);
            3
        }
    }
}
/// does the implementation's textual/byte address denote the reference address?
fn addr_matches(got: &[u8], want: &Addr) -> bool {
    match want {
        Addr::Domain(d) => got == &d[..d.len().min(255)],
        Addr::V4(x) => std::str::from_utf8(got).ok().and_then(|s| s.parse::<Ipv4Addr>().ok()) == Some(Ipv4Addr::from(*x)),
        Addr::V6(x) => {
            let mut b = [0u8; 16];
            b[..x.len().min(16)].copy_from_slice(&x[..x.len().min(16)]);
            std::str::from_utf8(got).ok().and_then(|s| s.parse::<Ipv6Addr>().ok()) == Some(Ipv6Addr::from(b))
        }
    }
}

pub fn run_c18(plan: &C18Plan, _sched: &Sched) -> Outcome {
    let mut o = Outcome::default();
    let mut steps = 0u64;
    let mut dg = Digest::default();
    let io = plan.io.clone();
    match &plan.case {
        Case::V5Request { ver, cmd, rsv, atyp_override, addr, port } => {
            let mut req = vec![*ver, *cmd, *rsv];
            let at_pos = req.len();
            req.push(0);
            let atyp = enc_addr(addr, &mut req);
            req[at_pos] = atyp_override.unwrap_or(atyp);
            req.extend(port.to_be_bytes());
            let len = req.len();
            let mut data = req.clone();
            data.extend(&plan.trailing);
            let well_formed = *ver == 5 && atyp_override.is_none_or(|a| a == atyp);
            let bad_atyp = *ver == 5 && atyp_override.is_some_and(|a| ![1u8, 3, 4].contains(&a));
            let (res, rest, written) = if io.bufreader > 0 {
                let mut s = tokio::io::BufReader::with_capacity(io.bufreader, ByteIo::new(data.clone(), io.clone()));
                let r = drive(penguin_socks::v5::read_request(&mut s), &mut steps);
                let mut rest = s.buffer().to_vec();
                rest.extend(s.get_ref().rest());
                (r, rest, s.get_ref().written.clone())
            } else {
                let mut s = ByteIo::new(data.clone(), io.clone());
                let r = drive(penguin_socks::v5::read_request(&mut s), &mut steps);
                (r, s.rest().to_vec(), s.written.clone())
            };
            let cut_inside = io.cut < len;
            let desc = format!("SOCKS5 request {req:02x?} (+{} trailing bytes), cut at {} ({:?}), chunks {:?}, BufReader {}", plan.trailing.len(), io.cut.min(data.len()), io.end, io.chunks, io.bufreader);
            match (&res, well_formed) {
                (Some(Ok((c, a, p))), true) if !cut_inside => {
                    if c != cmd || *p != *port || !addr_matches(a, addr) {
                        o.violate("C18:v5-request-fields", format!("read_request returned (cmd {c}, addr {:?}, port {p}), the request says (cmd {cmd}, {addr:?}, port {port}); {desc}", String::from_utf8_lossy(a)));
                    }
                    let io_rest: Vec<u8> = data[len..io.cut.min(data.len()).max(len)].to_vec();
                    if rest != io_rest {
                        o.violate("C18:v5-request-consumption", format!("after the request {} bytes remain readable, {} expected: the reader did not consume exactly the request; {desc}", rest.len(), io_rest.len()));
                    }
                    o.probe("v5-request-ok", 1);
                }
                (Some(Ok(x)), true) => o.violate("C18:v5-truncated-accepted", format!("read_request returned Ok({x:?}) although the input ended inside the request; {desc}")),
                (Some(Ok(x)), false) => o.violate("C18:v5-malformed-accepted", format!("read_request returned Ok({x:?}) for a malformed request; {desc}")),
                (None, _) => {
                    // still waiting: legitimate only if the stream was left open before the reader had enough to decide
                    let need = if well_formed { len } else if *ver != 5 { 1 } else { 4 };
                    if !(plan.io.end == EndMode::Open && io.cut < need) {
                        o.violate("C18:v5-reader-stuck", format!("read_request is still pending although everything it needs had been served; {desc}"));
                    }
                    o.probe("reader-keeps-waiting", 1);
                }
                (Some(Err(_)), true) if !cut_inside && io.write_err_at == 0 => o.violate("C18:v5-wellformed-rejected", format!("read_request failed on a well-formed request: {res:?}; {desc}")),
                (Some(Err(_)), _) => {
                    o.probe("request-rejected", 1);
                    if cut_inside {
                        o.probe("fault:cut-inside-request", 1);
                    }
                    if bad_atyp && !cut_inside && io.cut >= 4 && io.write_err_at == 0 {
                        let want = [5u8, 8, 0, 1, 0, 0, 0, 0, 0, 0];
                        if written != want {
                            o.violate("C18:v5-atyp-reply", format!("unsupported address type: the reply written is {written:02x?}, RFC 1928 'address type not supported' with a null IPv4 bind address is {want:02x?}; {desc}"));
                        }
                    }
                }
            }
            dg.bytes(format!("{res:?}").as_bytes());
        }
        Case::V4Request { cmd, port, ip, user, user_nul, domain, domain_nul } => {
            let mut req = vec![*cmd];
            req.extend(port.to_be_bytes());
            req.extend(ip);
            req.extend(user.iter().map(|b| if *b == 0 { 1 } else { *b }));
            if *user_nul {
                req.push(0);
            }
            let is4a = ip[0] == 0 && ip[1] == 0 && ip[2] == 0 && ip[3] != 0;
            if is4a {
                if let Some(d) = domain {
                    req.extend(d.iter().map(|b| if *b == 0 { 1 } else { *b }));
                    if *domain_nul {
                        req.push(0);
                    }
                }
            }
            let well_formed = *user_nul && (!is4a || (domain.is_some() && *domain_nul));
            let len = req.len();
            let mut data = req.clone();
            if well_formed {
                data.extend(&plan.trailing);
            }
            let (res, rest) = if io.bufreader > 0 {
                let mut s = tokio::io::BufReader::with_capacity(io.bufreader, ByteIo::new(data.clone(), io.clone()));
                let r = drive(penguin_socks::v4::read_request(&mut s), &mut steps);
                let mut rest = s.buffer().to_vec();
                rest.extend(s.get_ref().rest());
                (r, rest)
            } else {
                let mut s = ByteIo::new(data.clone(), io.clone());
                let r = drive(penguin_socks::v4::read_request(&mut s), &mut steps);
                (r, s.rest().to_vec())
            };
            let cut_inside = io.cut < len || !well_formed;
            let desc = format!("SOCKS4{} request {req:02x?} (+{} trailing), user-id terminated: {user_nul}, domain terminated: {domain_nul}, cut at {} ({:?}), chunks {:?}, BufReader {}", if is4a { "a" } else { "" }, data.len() - len, io.cut.min(data.len()), io.end, io.chunks, io.bufreader);
            let want_addr = if is4a { Addr::Domain(domain.clone().unwrap_or_default().iter().map(|b| if *b == 0 { 1 } else { *b }).collect()) } else { Addr::V4(*ip) };
            match &res {
                Some(Ok((c, a, p))) if !cut_inside => {
                    let ok_addr = match &want_addr {
                        Addr::Domain(d) => a == d,
                        w => addr_matches(a, w),
                    };
                    if c != cmd || *p != *port || !ok_addr {
                        o.violate("C18:v4-request-fields", format!("read_request returned (cmd {c}, addr {:?}, port {p}), the request says (cmd {cmd}, {want_addr:?}, port {port}); {desc}", String::from_utf8_lossy(a)));
                    }
                    let io_rest: Vec<u8> = data[len..io.cut.min(data.len()).max(len)].to_vec();
                    if rest != io_rest {
                        o.violate("C18:v4-request-consumption", format!("after the request {} bytes remain readable, {} expected; {desc}", rest.len(), io_rest.len()));
                    }
                    o.probe("v4-request-ok", 1);
                }
                Some(Ok(x)) => o.violate("C18:v4-truncated-accepted", format!("read_request returned Ok(cmd {}, addr {:?}, port {}) although the input ended inside the request (a NUL-terminated field has no terminator); {desc}", x.0, String::from_utf8_lossy(&x.1), x.2)),
                None => {
                    if !(plan.io.end == EndMode::Open && cut_inside) {
                        o.violate("C18:v4-reader-stuck", format!("read_request is still pending although the whole request had been served; {desc}"));
                    }
                    o.probe("reader-keeps-waiting", 1);
                }
                Some(Err(_)) if !cut_inside => o.violate("C18:v4-wellformed-rejected", format!("read_request failed on a well-formed request: {res:?}; {desc}")),
                Some(Err(_)) => {
                    o.probe("request-rejected", 1);
                    o.probe("fault:cut-inside-request", 1);
                }
            }
            dg.bytes(format!("{res:?}").as_bytes());
        }
        Case::V5Auth { methods, declared } => {
            let n = declared.unwrap_or(methods.len().min(255) as u8);
            let mut req = vec![n];
            req.extend(&methods[..methods.len().min(255)]);
            let len = 1 + n as usize;
            let mut data = req.clone();
            data.extend(&plan.trailing);
            let mut s = ByteIo::new(data.clone(), io.clone());
            let res = drive(penguin_socks::v5::read_auth_methods(&mut s), &mut steps);
            let avail = io.cut.min(data.len());
            let desc = format!("method selection {req:02x?}, cut at {avail} ({:?}), chunks {:?}", io.end, io.chunks);
            match &res {
                Some(Ok(m)) => {
                    if avail < len {
                        o.violate("C18:v5-auth-truncated-accepted", format!("read_auth_methods returned Ok({m:?}) although only {avail} of {len} bytes were served; {desc}"));
                    } else if m[..] != data[1..len] {
                        o.violate("C18:v5-auth-fields", format!("read_auth_methods returned {m:?}, the message lists {:?}; {desc}", &data[1..len]));
                    } else if s.rest() != &data[len..avail.max(len)] {
                        o.violate("C18:v5-auth-consumption", format!("read_auth_methods did not consume exactly the message; {desc}"));
                    }
                    o.probe("v5-auth-ok", 1);
                }
                Some(Err(_)) => {
                    if avail >= len {
                        o.violate("C18:v5-auth-rejected", format!("read_auth_methods failed on a complete message; {desc}"));
                    }
                }
                None => {
                    if !(plan.io.end == EndMode::Open && avail < len) {
                        o.violate("C18:v5-auth-stuck", format!("read_auth_methods still pending; {desc}"));
                    }
                }
            }
        }
        Case::V5Reply { .. } | Case::V5ReplyUnspec { .. } | Case::V5AuthReply { .. } | Case::V4Reply { .. } => {
            let mut s = ByteIo::new(vec![], io.clone());
            let (res, want): (Option<Result<(), penguin_socks::Error>>, Vec<u8>) = match &plan.case {
                Case::V5Reply { code, v6, ip, port } => {
                    let (sa, mut want) = if *v6 {
                        let mut b = [0u8; 16];
                        b[..ip.len().min(16)].copy_from_slice(&ip[..ip.len().min(16)]);
                        (SocketAddr::new(IpAddr::V6(Ipv6Addr::from(b)), *port), [vec![5, *code, 0, 4], b.to_vec()].concat())
                    } else {
                        let mut b = [0u8; 4];
                        b[..ip.len().min(4)].copy_from_slice(&ip[..ip.len().min(4)]);
                        (SocketAddr::new(IpAddr::V4(Ipv4Addr::from(b)), *port), [vec![5, *code, 0, 1], b.to_vec()].concat())
                    };
                    want.extend(port.to_be_bytes());
                    (drive(penguin_socks::v5::write_response(&mut s, *code, sa), &mut steps), want)
                }
                Case::V5ReplyUnspec { code } => (drive(penguin_socks::v5::write_response_unspecified(&mut s, *code), &mut steps), vec![5, *code, 0, 1, 0, 0, 0, 0, 0, 0]),
                Case::V5AuthReply { method } => (drive(penguin_socks::v5::write_auth_method(&mut s, *method), &mut steps), vec![5, *method]),
                Case::V4Reply { code } => (drive(penguin_socks::v4::write_response(&mut s, *code), &mut steps), vec![0, *code, 0, 0, 0, 0, 0, 0]),
                _ => unreachable!(),
            };
            let desc = format!("{:?}, write acceptance {:?}, write error at call {}", plan.case, io.writes, io.write_err_at);
            match res {
                Some(Ok(())) => {
                    if s.written != want {
                        o.violate("C18:reply-bytes", format!("the reply written is {:02x?}, the RFC layout is {want:02x?}; {desc}", s.written));
                    }
                    if !s.flushed {
                        o.violate("C18:reply-not-flushed", format!("the reply was written but never flushed; {desc}"));
                    }
                    o.probe("reply-ok", 1);
                }
                Some(Err(_)) => {
                    if io.write_err_at == 0 {
                        o.violate("C18:reply-failed", format!("writing the reply failed although no write failed; {desc}"));
                    }
                    if !want.starts_with(&s.written) {
                        o.violate("C18:reply-bytes", format!("bytes written before the error {:02x?} are not a prefix of the RFC layout {want:02x?}; {desc}", s.written));
                    }
                    o.probe("fault:reply-write-error", 1);
                }
                None => o.violate("C18:reply-stuck", format!("the reply writer is pending forever; {desc}")),
            }
        }
        Case::UdpBuild { v6, ip, port, payload } => {
            let sa = if *v6 {
                let mut b = [0u8; 16];
                b[..ip.len().min(16)].copy_from_slice(&ip[..ip.len().min(16)]);
                SocketAddr::new(IpAddr::V6(Ipv6Addr::from(b)), *port)
            } else {
                let mut b = [0u8; 4];
                b[..ip.len().min(4)].copy_from_slice(&ip[..ip.len().min(4)]);
                SocketAddr::new(IpAddr::V4(Ipv4Addr::from(b)), *port)
            };
            let built = penguin_socks::v5::udp_relay_response(sa, payload);
            steps += 1;
            // independent RFC 1928 client-side parser: RSV(2) FRAG(1) ATYP(1) DST.ADDR DST.PORT DATA
            let parsed = (|| -> Option<(SocketAddr, Vec<u8>)> {
                if built.len() < 4 || built[0] != 0 || built[1] != 0 || built[2] != 0 {
                    return None;
                }
                match built[3] {
                    1 if built.len() >= 10 => Some((SocketAddr::new(IpAddr::V4(Ipv4Addr::new(built[4], built[5], built[6], built[7])), u16::from_be_bytes([built[8], built[9]])), built[10..].to_vec())),
                    4 if built.len() >= 22 => {
                        let mut b = [0u8; 16];
                        b.copy_from_slice(&built[4..20]);
                        Some((SocketAddr::new(IpAddr::V6(Ipv6Addr::from(b)), u16::from_be_bytes([built[20], built[21]])), built[22..].to_vec()))
                    }
                    _ => None,
                }
            })();
            if parsed != Some((sa, payload.clone())) {
                o.violate("C18:udp-header-roundtrip", format!("udp_relay_response({sa}, {} payload bytes) = {:02x?}..., which a conforming RFC 1928 client parses as {:?}", payload.len(), &built[..built.len().min(26)], parsed.map(|p| (p.0, p.1.len()))));
            }
            o.probe("udp-header-built", 1);
        }
        Case::UdpParse { frag, atyp, addr, port, payload, truncate } => {
            let mut b = vec![0, 0, *frag, *atyp];
            enc_addr(addr, &mut b);
            b.extend(port.to_be_bytes());
            let hdr = b.len();
            b.extend(payload);
            if let Some(t) = truncate {
                b.truncate(*t);
            }
            let natural = match addr {
                Addr::V4(_) => 1,
                Addr::Domain(_) => 3,
                Addr::V6(_) => 4,
            };
            steps += 1;
            let res = penguin_socks::v5::parse_udp_relay_header(bytes::Bytes::from(b.clone()));
            let complete = b.len() >= hdr;
            let desc = format!("UDP relay datagram {:02x?}... ({} bytes, header {hdr})", &b[..b.len().min(30)], b.len());
            match res {
                Ok((a, p, d)) => {
                    if *frag != 0 || *atyp != natural || !complete {
                        o.violate("C18:udp-parse-accepted", format!("parse_udp_relay_header accepted a datagram it must refuse (FRAG {frag}, ATYP {atyp}, complete header: {complete}); {desc}"));
                    } else if !addr_matches(&a, addr) || p != *port || d[..] != b[hdr..] {
                        o.violate("C18:udp-parse-fields", format!("parse_udp_relay_header returned ({:?}, {p}, {} bytes), the datagram says ({addr:?}, {port}, {} bytes); {desc}", String::from_utf8_lossy(&a), d.len(), payload.len()));
                    }
                    o.probe("udp-header-parsed", 1);
                }
                Err(_) => {
                    if *frag == 0 && *atyp == natural && complete {
                        o.violate("C18:udp-parse-rejected", format!("parse_udp_relay_header refused a well-formed datagram; {desc}"));
                    }
                }
            }
        }
    }
    o.steps = steps;
    dg.u64(steps);
    dg.bytes(serde_json::to_string(&plan.case).unwrap_or_default().as_bytes());
    dg.bytes(serde_json::to_string(&plan.io).unwrap_or_default().as_bytes());
    o.digest = dg.0;
    o.nontrivial = true;
    o.note = format!("{:?}", plan.case).chars().take(200).collect();
    o
}

//! A local byte stream whose every call is decided by the plan: chunk boundaries, `Pending` with
//! or without a later wake-up, EOF, I/O errors on read / write / flush / shutdown, short writes.

use serde::{Deserialize, Serialize};
use std::cell::RefCell;
use std::collections::VecDeque;
use std::io;
use std::pin::Pin;
use std::rc::Rc;
use std::task::{Context, Poll};
use tokio::io::{AsyncBufRead, AsyncRead, AsyncWrite, ReadBuf};

#[derive(Serialize, Deserialize, Clone, Debug, PartialEq)]
pub enum R {
    Chunk(usize),
    /// Pending, the waker is invoked at once (the task becomes runnable again)
    PendWake,
    /// Pending and never woken by the local side
    PendForever,
    Eof,
    Err,
}
#[derive(Serialize, Deserialize, Clone, Debug, PartialEq)]
pub enum Wr {
    /// accept at most k bytes (at least 1)
    Accept(usize),
    PendWake,
    Err,
    /// the writer no longer accepts bytes: `Ok(0)` for this and every later non-empty write
    /// (what `AsyncWrite` documents for an object that cannot take more; `tokio::io::copy`
    /// turns it into `WriteZero`)
    ZeroForever,
}
#[derive(Serialize, Deserialize, Clone, Debug, PartialEq)]
pub enum Fl {
    Ok,
    PendWake,
    Err,
    /// (flush only) this and every later flush stays Pending and nobody wakes it: a buffering
    /// writer under back-pressure whose consumer is waiting for something else
    PendForever,
}
#[derive(Default, Debug)]
pub struct IoLog {
    pub written: Vec<u8>,
    /// bytes handed to the reader (consumed)
    pub produced: Vec<u8>,
    pub eof_returned: bool,
    pub read_err: bool,
    pub write_err: bool,
    pub flush_err: bool,
    /// length of `written` at the last successful flush (or shutdown): a buffering writer has
    /// delivered only that much
    pub flushed: usize,
    pub shutdown_err: bool,
    pub shutdown_calls: u32,
    pub shutdown_done: bool,
    pub write_after_shutdown: bool,
    pub read_pending_forever: bool,
    /// a flush is stuck for good (`Fl::PendForever`)
    pub flush_stuck: bool,
    /// the reading side has something ready that nobody has taken yet: bytes, an error, or the
    /// end-of-stream that was not reported so far
    pub read_ready: bool,
    pub events: Vec<String>,
}
pub struct ScriptIo {
    pub r: VecDeque<R>,
    pub w: VecDeque<Wr>,
    pub fl: VecDeque<Fl>,
    pub sh: VecDeque<Fl>,
    cur: Vec<u8>,
    off: u64,
    gen_byte: fn(u64) -> u8,
    pub log: Rc<RefCell<IoLog>>,
}
impl ScriptIo {
    pub fn new(r: Vec<R>, w: Vec<Wr>, fl: Vec<Fl>, sh: Vec<Fl>, gen_byte: fn(u64) -> u8) -> (Self, Rc<RefCell<IoLog>>) {
        let log = Rc::new(RefCell::new(IoLog::default()));
        let io = ScriptIo { r: r.into(), w: w.into(), fl: fl.into(), sh: sh.into(), cur: vec![], off: 0, gen_byte, log: log.clone() };
        io.note_read_ready();
        (io, log)
    }
}
impl ScriptIo {
    fn note_read_ready(&self) {
        let eof_seen = self.log.borrow().eof_returned;
        // (leading PendWake items do not hide what follows: they are consumed by the next poll)
        let next = self.r.iter().find(|x| **x != R::PendWake);
        let ready = !self.cur.is_empty() || matches!(next, Some(R::Chunk(_) | R::Err)) || (matches!(next, Some(R::Eof)) && !eof_seen);
        self.log.borrow_mut().read_ready = ready;
    }
}
impl AsyncBufRead for ScriptIo {
    fn poll_fill_buf(self: Pin<&mut Self>, cx: &mut Context<'_>) -> Poll<io::Result<&[u8]>> {
        let this = self.get_mut();
        if !this.cur.is_empty() {
            return Poll::Ready(Ok(&this.cur));
        }
        match this.r.front().cloned() {
            None | Some(R::PendForever) => {
                let mut l = this.log.borrow_mut();
                l.read_pending_forever = true;
                l.read_ready = false;
                Poll::Pending
            }
            Some(R::PendWake) => {
                this.r.pop_front();
                this.note_read_ready();
                cx.waker().wake_by_ref();
                Poll::Pending
            }
            Some(R::Eof) => {
                this.log.borrow_mut().eof_returned = true;
                this.note_read_ready();
                Poll::Ready(Ok(&[]))
            }
            Some(R::Err) => {
                this.r.pop_front();
                {
                    let mut l = this.log.borrow_mut();
                    l.read_err = true;
                    l.events.push("read -> Err".into());
                }
                this.note_read_ready();
                Poll::Ready(Err(io::ErrorKind::ConnectionReset.into()))
            }
            Some(R::Chunk(n)) => {
                this.r.pop_front();
                let n = n.max(1);
                this.cur = (0..n as u64).map(|i| (this.gen_byte)(this.off + i)).collect();
                this.off += n as u64;
                this.log.borrow_mut().read_ready = true;
                Poll::Ready(Ok(&this.cur))
            }
        }
    }
    fn consume(self: Pin<&mut Self>, amt: usize) {
        let this = self.get_mut();
        let amt = amt.min(this.cur.len());
        let taken: Vec<u8> = this.cur.drain(..amt).collect();
        this.log.borrow_mut().produced.extend(taken);
        this.note_read_ready();
    }
}
impl AsyncRead for ScriptIo {
    fn poll_read(mut self: Pin<&mut Self>, cx: &mut Context<'_>, b: &mut ReadBuf<'_>) -> Poll<io::Result<()>> {
        let got = match self.as_mut().poll_fill_buf(cx) {
            Poll::Ready(Ok(g)) => g,
            Poll::Ready(Err(e)) => return Poll::Ready(Err(e)),
            Poll::Pending => return Poll::Pending,
        };
        let k = got.len().min(b.remaining());
        b.put_slice(&got[..k]);
        self.consume(k);
        Poll::Ready(Ok(()))
    }
}
impl AsyncWrite for ScriptIo {
    fn poll_write(self: Pin<&mut Self>, cx: &mut Context<'_>, b: &[u8]) -> Poll<io::Result<usize>> {
        let this = self.get_mut();
        if this.log.borrow().shutdown_done {
            this.log.borrow_mut().write_after_shutdown = true;
        }
        if this.w.front() == Some(&Wr::ZeroForever) && !b.is_empty() {
            let mut l = this.log.borrow_mut();
            if !l.write_err {
                l.events.push("write -> Ok(0) from now on".into());
            }
            l.write_err = true;
            return Poll::Ready(Ok(0));
        }
        match this.w.pop_front() {
            None | Some(Wr::ZeroForever) => {
                this.log.borrow_mut().written.extend(b);
                Poll::Ready(Ok(b.len()))
            }
            Some(Wr::Accept(k)) => {
                let k = k.min(b.len()).max(1.min(b.len()));
                this.log.borrow_mut().written.extend(&b[..k]);
                Poll::Ready(Ok(k))
            }
            Some(Wr::PendWake) => {
                cx.waker().wake_by_ref();
                Poll::Pending
            }
            Some(Wr::Err) => {
                let mut l = this.log.borrow_mut();
                l.write_err = true;
                l.events.push("write -> Err".into());
                Poll::Ready(Err(io::ErrorKind::BrokenPipe.into()))
            }
        }
    }
    fn poll_flush(self: Pin<&mut Self>, cx: &mut Context<'_>) -> Poll<io::Result<()>> {
        let this = self.get_mut();
        if this.fl.front() == Some(&Fl::PendForever) {
            this.log.borrow_mut().flush_stuck = true;
            return Poll::Pending;
        }
        match this.fl.pop_front() {
            None | Some(Fl::Ok) => {
                let mut l = this.log.borrow_mut();
                l.flushed = l.written.len();
                Poll::Ready(Ok(()))
            }
            Some(Fl::PendWake) | Some(Fl::PendForever) => {
                cx.waker().wake_by_ref();
                Poll::Pending
            }
            Some(Fl::Err) => {
                let mut l = this.log.borrow_mut();
                l.flush_err = true;
                l.events.push("flush -> Err".into());
                Poll::Ready(Err(io::ErrorKind::Other.into()))
            }
        }
    }
    fn poll_shutdown(self: Pin<&mut Self>, cx: &mut Context<'_>) -> Poll<io::Result<()>> {
        let this = self.get_mut();
        this.log.borrow_mut().shutdown_calls += 1;
        match this.sh.pop_front() {
            None | Some(Fl::Ok) => {
                let mut l = this.log.borrow_mut();
                l.shutdown_done = true;
                l.flushed = l.written.len();
                Poll::Ready(Ok(()))
            }
            Some(Fl::PendWake) | Some(Fl::PendForever) => {
                cx.waker().wake_by_ref();
                Poll::Pending
            }
            Some(Fl::Err) => {
                let mut l = this.log.borrow_mut();
                l.shutdown_err = true;
                l.events.push("shutdown -> Err".into());
                Poll::Ready(Err(io::ErrorKind::NotConnected.into()))
            }
        }
    }
}

//! Post-hoc oracles over the recorded history of a two-endpoint run: the wire monitor's event list
//! (reference codec, global sequence numbers) merged with the API ledger.
//!
//! Every clause is tagged `<property>:<clause>`; a property's check reports only its own clauses.
//! Relaxations are narrow: after an end cause (cut, Close, garbage, handle drop) completeness of
//! delivery is no longer demanded for the affected endpoint(s); prefix-correctness, exactly-once
//! and isolation still are.

use crate::duo::*;
use crate::exec::End;
use crate::link::*;
use crate::refcodec::RFrame;
use simcore::Outcome;
use std::collections::{HashMap, VecDeque};

#[derive(Clone, Copy, Debug)]
pub struct OracleCfg {
    /// per-flow credit accountant (needs ids that never collide between the two requesters)
    pub accountant: bool,
    pub quiescence: bool,
    pub dgram: bool,
    pub bind: bool,
}
impl Default for OracleCfg {
    fn default() -> Self {
        OracleCfg { accountant: true, quiescence: true, dgram: true, bind: true }
    }
}

#[derive(Default, Debug)]
pub struct Inst {
    pub id: u32,
    pub tag: Option<usize>,
    pub requester: usize,
    pub connect_seq: u64,
    pub est_sent: Option<u64>,
    pub est_consumed: Option<u64>,
    pub rejected: Option<u64>,
    /// win[x] = window advertised by endpoint x (limits the Push frames sent by 1-x)
    pub win: [Option<u32>; 2],
    pub push_sent: [u64; 2],
    pub push_nonempty: [u64; 2],
    pub push_empty: [u64; 2],
    pub bytes_sent: [u64; 2],
    /// credit (from Acknowledge frames) consumed by x's connection task
    pub credit_consumed: [u64; 2],
    pub ack_sent: [u64; 2],
    /// lengths of the Push frames consumed by x's connection task
    pub push_consumed: [Vec<usize>; 2],
    pub finish_sent: [Option<u64>; 2],
    pub finish_consumed: [Option<u64>; 2],
    pub reset_sent: [Vec<u64>; 2],
    pub reset_consumed: [Option<u64>; 2],
    pub max_outstanding: [u64; 2],
}

#[derive(Default)]
pub struct WireModel {
    pub insts: Vec<Inst>,
    pub by_tag: HashMap<usize, usize>,
    pub close_sent: [Option<u64>; 2],
    pub close_consumed: [Option<u64>; 2],
    pub garbage_consumed: [Option<u64>; 2],
    pub n_push: u64,
    pub n_ack: u64,
    pub n_reset: u64,
    pub ack_crossed_push: u64,
}

pub struct EndInfo {
    /// endpoints whose connection has ended (and which are therefore judged by C08)
    pub judged: [bool; 2],
    pub any_fault: bool,
    pub first_fault_seq: Option<u64>,
    pub why: [String; 2],
}

pub fn end_info(r: &DuoRun) -> EndInfo {
    let led = r.led.borrow();
    let l = r.link.lock().unwrap();
    let mut judged = [false; 2];
    let mut why = [String::new(), String::new()];
    let first_fault_seq = r.fired.iter().filter(|(n, _)| !n.starts_with("hold")).map(|x| x.1).min();
    let mut mark = |x: usize, w: &str| {
        judged[x] = true;
        if why[x].is_empty() {
            why[x] = w.to_string();
        }
    };
    for x in 0..2 {
        if led.task_end[x].is_some() {
            mark(x, "connection task returned");
        }
        if led.mux_dropped[x].is_some() {
            mark(x, "multiplexor handle dropped");
        }
        // the source of x failed (error or end-of-stream): the receive loop always notices
        if l.src_ended_seen[x] {
            mark(x, "transport source ended");
        }
        if l.sink_err_seen[x] {
            mark(x, "transport sink failed while sending");
        }
    }
    for e in &l.evs {
        if e.stage == Stage::Consumed {
            match &*e.w {
                Wire::Close => mark(1 - e.from, "Close received"),
                Wire::Garbage(_) => mark(1 - e.from, "invalid frame received"),
                _ => {}
            }
        }
    }
    EndInfo { judged, any_fault: first_fault_seq.is_some(), first_fault_seq, why }
}

/// frames of stream `tag` the application at `side` had started consuming at `seq`
fn started_frames(led: &Ledger, tag: usize, side: usize, frames: &[usize], seq: u64) -> u64 {
    let b = led.streams[tag].sides[side].reads.iter().take_while(|(s, _)| *s < seq).last().map(|x| x.1).unwrap_or(0);
    let mut started = 0u64;
    let mut off = 0u64;
    for len in frames {
        if off < b {
            started += 1;
        }
        off += *len as u64;
    }
    started
}

pub fn wire_model(r: &DuoRun, cfg: &OracleCfg, o: &mut Outcome) -> WireModel {
    let led = r.led.borrow();
    let l = r.link.lock().unwrap();
    let mut m = WireModel::default();
    let mut view: [HashMap<u32, usize>; 2] = [HashMap::new(), HashMap::new()];
    let mut attr: HashMap<usize, usize> = HashMap::new();
    for e in &l.evs {
        let from = e.from;
        let to = 1 - from;
        match (&*e.w, e.stage) {
            (Wire::Close, Stage::Sent) => m.close_sent[from] = m.close_sent[from].or(Some(e.seq)),
            (Wire::Close, Stage::Consumed) => m.close_consumed[to] = m.close_consumed[to].or(Some(e.seq)),
            (Wire::Garbage(_), Stage::Consumed) => m.garbage_consumed[to] = m.garbage_consumed[to].or(Some(e.seq)),
            (Wire::Garbage(g), Stage::Sent) if !e.injected => {
                o.violate("C02:garbage-sent", format!("endpoint {from} put a message on the wire that the reference codec rejects: {g:02x?}"));
            }
            _ => {}
        }
        let Wire::Frame(f) = &*e.w else { continue };
        if e.injected || !cfg.accountant {
            continue;
        }
        let id = f.id();
        // Which incarnation of flow `id` does this frame belong to? Flow ids are re-used, and a
        // frame of the previous incarnation may still be travelling when the next Connect with the
        // same id is already on the wire. A frame belongs to the incarnation its SENDER knew when
        // it sent it (the last Connect(id) that endpoint had sent or consumed); the later stages of
        // the same message inherit that attribution.
        let key = std::sync::Arc::as_ptr(&e.w) as usize;
        if let (RFrame::Connect { rwnd, host, .. }, Stage::Sent) = (f, e.stage) {
            let tag = tag_of_host(host);
            let inst = Inst { id, tag, requester: from, connect_seq: e.seq, win: if from == 0 { [Some(*rwnd), None] } else { [None, Some(*rwnd)] }, ..Default::default() };
            m.insts.push(inst);
            view[from].insert(id, m.insts.len() - 1);
            if let Some(t) = tag {
                m.by_tag.insert(t, m.insts.len() - 1);
            }
        }
        let cur: Option<usize> = if e.stage == Stage::Sent {
            let v = view[from].get(&id).copied();
            if let Some(v) = v {
                attr.insert(key, v);
            }
            v
        } else {
            attr.get(&key).copied()
        };
        if let (RFrame::Connect { .. }, Stage::Consumed, Some(ix)) = (f, e.stage, cur) {
            view[to].insert(id, ix);
        }
        match (f, e.stage) {
            (RFrame::Ack { n, .. }, Stage::Sent) => {
                m.n_ack += 1;
                let Some(ix) = cur else { continue };
                let x = &mut m.insts[ix];
                if x.est_sent.is_none() && x.rejected.is_none() && x.requester == to {
                    x.est_sent = Some(e.seq);
                    x.win[from] = Some(*n);
                } else if x.est_sent.is_some() {
                    x.ack_sent[from] += *n as u64;
                    // an Acknowledge leaving while a Push of the same flow travels towards its sender
                    if x.push_sent[to] > x.push_consumed[from].len() as u64 {
                        m.ack_crossed_push += 1;
                    }
                    // I3: never more than received; I2: never ahead of what the application started consuming
                    let recvd = x.push_consumed[from].len() as u64;
                    if x.ack_sent[from] > recvd {
                        o.violate("C03:ack-more-than-received", format!("flow {id:x}: endpoint {from} has acknowledged {} frames but its task consumed only {recvd}", x.ack_sent[from]));
                    }
                    if let Some(t) = x.tag {
                        let side = if from == x.requester { 0 } else { 1 };
                        if t < led.streams.len() {
                            let started = started_frames(&led, t, side, &x.push_consumed[from], e.seq);
                            if x.ack_sent[from] > started + 1 {
                                o.violate("C03:ack-ahead-of-consumption", format!("flow {id:x}: endpoint {from} has acknowledged {} frames but its application has started consuming only {started}", x.ack_sent[from]));
                            }
                        }
                    }
                }
            }
            (RFrame::Ack { n, .. }, Stage::Consumed) => {
                let Some(ix) = cur else { continue };
                let x = &mut m.insts[ix];
                if x.est_sent.is_some() && x.est_consumed.is_none() && x.requester == to {
                    x.est_consumed = Some(e.seq);
                } else if x.est_sent.is_some() {
                    x.credit_consumed[to] += *n as u64;
                }
            }
            (RFrame::Push { data, .. }, Stage::Sent) => {
                m.n_push += 1;
                let Some(ix) = cur else {
                    o.violate("C03:push-unknown-flow", format!("endpoint {from} sent Push on flow {id:x} that was never opened"));
                    continue;
                };
                let x = &mut m.insts[ix];
                x.push_sent[from] += 1;
                if data.is_empty() {
                    x.push_empty[from] += 1;
                } else {
                    x.push_nonempty[from] += 1;
                }
                match x.win[to] {
                    None => o.violate("C03:push-before-window", format!("endpoint {from} sent Push on flow {id:x} before the peer advertised a window")),
                    Some(w) => {
                        let out = x.push_sent[from] - x.credit_consumed[from].min(x.push_sent[from]);
                        x.max_outstanding[from] = x.max_outstanding[from].max(out);
                        if out > w as u64 {
                            o.violate("C03:window-overrun", format!("flow {id:x}: endpoint {from} has {out} unacknowledged Push frames on the wire, the peer advertised a window of {w}"));
                        }
                    }
                }
                if let Some(fs) = x.finish_sent[from] {
                    o.violate("C05:push-after-finish", format!("flow {id:x}: endpoint {from} sent Push (seq {}) after its Finish (seq {fs})", e.seq));
                }
                if let Some(t) = x.tag {
                    let wdir = if from == x.requester { 0 } else { 1 };
                    let off = x.bytes_sent[from];
                    if data.iter().enumerate().any(|(i, b)| *b != pbyte(t, wdir, off + i as u64)) {
                        o.violate("C02:wire-content", format!("flow {id:x}: Push payload sent by endpoint {from} at stream offset {off} is not the data written to that stream"));
                    }
                }
                x.bytes_sent[from] += data.len() as u64;
            }
            (RFrame::Push { data, .. }, Stage::Consumed) => {
                if let Some(ix) = cur {
                    m.insts[ix].push_consumed[to].push(data.len());
                }
            }
            (RFrame::Finish { .. }, Stage::Sent) => {
                if let Some(ix) = cur {
                    let x = &mut m.insts[ix];
                    if x.finish_sent[from].is_some() && x.est_sent.is_some() {
                        o.violate("C05:duplicate-finish", format!("flow {id:x}: endpoint {from} sent Finish twice"));
                    }
                    x.finish_sent[from] = x.finish_sent[from].or(Some(e.seq));
                }
            }
            (RFrame::Finish { .. }, Stage::Consumed) => {
                if let Some(ix) = cur {
                    let x = &mut m.insts[ix];
                    x.finish_consumed[to] = x.finish_consumed[to].or(Some(e.seq));
                }
            }
            (RFrame::Reset { .. }, Stage::Sent) => {
                m.n_reset += 1;
                let Some(ix) = cur else { continue };
                let x = &mut m.insts[ix];
                x.reset_sent[from].push(e.seq);
                if x.est_sent.is_none() {
                    if x.requester == to {
                        x.rejected = Some(e.seq);
                    }
                    continue;
                }
                // explained iff `from`'s application had already let go of the stream, or `from`
                // had itself consumed a Reset for it; anything else resets a live established flow
                let mut explained = x.reset_consumed[from].is_some();
                if let Some(t) = x.tag {
                    if t < led.streams.len() {
                        let side = if from == x.requester { 0 } else { 1 };
                        let sl = &led.streams[t].sides[side];
                        if sl.dropped.is_some_and(|d| d < e.seq) {
                            explained = true;
                        }
                        // the requester cancelled / never got the stream (mux dropped first)
                        if sl.got_stream.is_none() {
                            explained = true;
                        }
                    } else {
                        explained = true;
                    }
                } else {
                    explained = true;
                }
                if led.task_end[from].as_ref().is_some_and(|(s, _)| *s < e.seq) {
                    explained = true;
                }
                if !explained {
                    o.violate("C03:reset-unexplained", format!("flow {id:x}: endpoint {from} reset an established stream (seq {}) that its application still holds and the peer had not reset — window overrun between conforming endpoints", e.seq));
                }
            }
            (RFrame::Reset { .. }, Stage::Consumed) => {
                if let Some(ix) = cur {
                    let x = &mut m.insts[ix];
                    x.reset_consumed[to] = x.reset_consumed[to].or(Some(e.seq));
                }
            }
            _ => {}
        }
    }
    m
}

/// All oracles of the general two-endpoint harness.
pub fn judge(r: &DuoRun, cfg: &OracleCfg, o: &mut Outcome) -> (WireModel, EndInfo) {
    for v in &r.led.borrow().viol {
        o.violate(&v.class, v.msg.clone());
    }
    let wm = wire_model(r, cfg, o);
    let ei = end_info(r);
    let led = r.led.borrow();
    let plan = &r.plan;
    if r.end != End::Quiescent {
        return (wm, ei);
    }
    // ---------------------------------------------------------- per-stream rules
    for (tag, s) in led.streams.iter().enumerate() {
        let opener = plan.streams[tag].opener.min(1);
        let ep_of = |side: usize| if side == 0 { opener } else { 1 - opener };
        // ---- end-of-stream justification and completeness (C05 / C02)
        for rs in 0..2 {
            let ws = 1 - rs;
            let (rd, wr) = (&s.sides[rs], &s.sides[ws]);
            if let Some(eof) = rd.eof {
                let peer_shut = wr.shutdown_inv.filter(|x| *x < eof);
                let peer_drop = wr.dropped.filter(|x| *x < eof);
                let conn_end = ei.first_fault_seq.filter(|x| *x < eof).is_some() || led.task_end.iter().flatten().any(|(q, _)| *q < eof) || led.mux_dropped.iter().flatten().any(|q| *q < eof);
                let own_reset = false;
                if peer_shut.is_none() && peer_drop.is_none() && !conn_end && !own_reset {
                    o.violate("C05:eof-unjustified", format!("stream {tag}: side {rs} read end-of-stream (seq {eof}) although the peer had neither shut down nor dropped the stream and the connection was alive; {} of {} accepted bytes received", rd.read_total, wr.accepted));
                }
                // clean shutdown, nothing aborted, connection alive: everything written before must have arrived
                let aborted_before = wr.aborted && peer_drop.is_some();
                let own_drop_before = false;
                if peer_shut.is_some() && !aborted_before && !conn_end && !own_drop_before && rd.read_total != wr.accepted_at_shutdown {
                    let msg = format!("stream {tag}: side {rs} reached end-of-stream after {} bytes but the peer had written {} bytes before its clean shutdown", rd.read_total, wr.accepted_at_shutdown);
                    o.violate("C05:eof-before-data", msg.clone());
                    o.violate("C02:eof-equality", msg);
                }
            }
            // ---- a write may fail only for a reason: local shutdown, the peer let go of the stream, or the connection ended
            for w in &wr.writes {
                if let (Some(Err(_)), Some(ret)) = (&w.res, w.ret) {
                    let justified = wr.shutdown_inv.is_some_and(|x| x < ret)
                        || rd.dropped.is_some_and(|x| x < ret)
                        || ei.first_fault_seq.is_some_and(|x| x < ret)
                        || led.task_end.iter().flatten().any(|(q, _)| *q < ret)
                        || led.mux_dropped.iter().flatten().any(|q| *q < ret);
                    if !justified {
                        o.violate("C06:spurious-write-failure", format!("stream {tag}: a write at side {ws} failed (seq {ret}) although the stream was not shut down locally, the peer still holds it and the connection is alive"));
                        break;
                    }
                }
            }
            // ---- writes that started after the local task consumed the peer's Reset must fail
            if cfg.accountant {
                if let Some(&ix) = wm.by_tag.get(&tag) {
                    let inst = &wm.insts[ix];
                    let wep = ep_of(ws);
                    if let Some(rc) = inst.reset_consumed[wep] {
                        for w in &wr.writes {
                            if w.inv > rc && matches!(w.res, Some(Ok(_))) && w.n > 0 {
                                let msg = format!("stream {tag}: a write started (seq {}) after the local connection task had consumed the peer's Reset (seq {rc}) returned {:?} instead of BrokenPipe", w.inv, w.res);
                                o.violate("C05:write-after-peer-abort", msg.clone());
                                o.violate("C06:write-after-peer-abort", msg);
                                break;
                            }
                        }
                    }
                    // one successful non-empty write = exactly one Push with those bytes
                    let ok_nonempty = wr.writes.iter().filter(|w| matches!(w.res, Some(Ok(k)) if k > 0)).count() as u64;
                    let ok_empty = wr.writes.iter().filter(|w| matches!(w.res, Some(Ok(0)))).count() as u64;
                    let pending_writes = wr.writes.iter().filter(|w| w.ret.is_none()).count() as u64;
                    let sent = inst.push_nonempty[wep];
                    if sent > ok_nonempty + pending_writes {
                        o.violate("C03:push-per-write", format!("stream {tag}: endpoint {wep} put {sent} non-empty Push frames on the wire for {ok_nonempty} successful non-empty writes"));
                    }
                    if inst.push_empty[wep] > ok_empty + pending_writes {
                        o.violate("C03:push-per-write", format!("stream {tag}: endpoint {wep} put {} empty Push frames on the wire for {ok_empty} empty writes", inst.push_empty[wep]));
                    }
                    if !ei.any_fault && led.task_end[wep].is_none() && sent < ok_nonempty && inst.reset_consumed[wep].is_none() && inst.reset_sent[wep].is_empty() {
                        o.violate("C03:push-per-write", format!("stream {tag}: endpoint {wep} reported {ok_nonempty} successful non-empty writes but only {sent} Push frames reached the wire at quiescence"));
                    }
                }
            }
        }
        if !cfg.quiescence {
            continue;
        }
        // ---- liveness at quiescence
        for ws in 0..2 {
            let rs = 1 - ws;
            let (wr, rd) = (&s.sides[ws], &s.sides[rs]);
            let (wep, rep) = (ep_of(ws), ep_of(rs));
            let pending_w = wr.writes.iter().find(|w| w.ret.is_none());
            let reader_active = rd.got_stream.is_some() && rd.r_stopped.is_none() && rd.dropped.is_none() && rd.eof.is_none();
            if let Some(w) = pending_w {
                if ei.judged[wep] {
                    o.violate("C08:pending:write", format!("stream {tag}: a write at endpoint {wep} (started seq {}) is still pending although that endpoint's connection has ended ({})", w.inv, ei.why[wep]));
                } else if !ei.any_fault {
                    let peer_aborted = rd.aborted && rd.dropped.is_some();
                    if peer_aborted {
                        o.violate("C06:peer-write-stuck", format!("stream {tag}: the peer aborted the stream (seq {:?}) but a write at endpoint {wep} is still pending at quiescence", rd.dropped));
                    } else if reader_active && rd.in_read.is_some() {
                        o.violate("C04:stall-write", format!("stream {tag}: a write of {} bytes at endpoint {wep} (started seq {}) is still pending at quiescence although the peer application keeps reading (windows: {} -> {}, thresholds {} / {})", w.n, w.inv, plan.eps[wep].rwnd, plan.eps[rep].rwnd, plan.eps[wep].threshold, plan.eps[rep].threshold));
                    }
                }
            }
            if let Some(inv) = rd.in_read {
                if ei.judged[rep] {
                    o.violate("C08:pending:read", format!("stream {tag}: a read at endpoint {rep} (started seq {inv}) is still pending although that endpoint's connection has ended ({})", ei.why[rep]));
                } else if !ei.any_fault {
                    if wr.aborted && wr.dropped.is_some() {
                        o.violate("C06:peer-read-stuck", format!("stream {tag}: the peer aborted the stream (seq {:?}) but a read at endpoint {rep} is still pending at quiescence", wr.dropped));
                    } else if wr.shutdown_ret.is_some() {
                        o.violate("C04:eof-stall", format!("stream {tag}: the peer shut down its write side (seq {:?}) but a read at endpoint {rep} is still pending at quiescence after {} of {} bytes", wr.shutdown_ret, rd.read_total, wr.accepted));
                    } else if rd.read_total < wr.accepted {
                        o.violate("C04:stall-read", format!("stream {tag}: {} bytes were accepted by writes at endpoint {wep} but the reading application at endpoint {rep} is stuck after {} bytes", wr.accepted, rd.read_total));
                    }
                }
            }
        }
        // ---- every byte accepted by a write becomes readable: the reader got end-of-stream short of
        //      what the peer's successful writes had accepted, although that peer never aborted the
        //      stream and nothing ended the connection
        if !ei.any_fault && led.task_end[0].is_none() && led.task_end[1].is_none() {
            for ws in 0..2 {
                let (wr, rd) = (&s.sides[ws], &s.sides[1 - ws]);
                if let Some(eof) = rd.eof {
                    if !wr.aborted && rd.read_total < wr.accepted {
                        o.violate("C04:bytes-never-readable", format!("stream {tag}: the reading application at endpoint {} kept reading and got end-of-stream (seq {eof}) after {} bytes, but writes at endpoint {} had accepted {} bytes and that application never aborted the stream (windows {} / {}, thresholds {} / {})", ep_of(1 - ws), rd.read_total, ep_of(ws), wr.accepted, plan.eps[0].rwnd, plan.eps[1].rwnd, plan.eps[0].threshold, plan.eps[1].threshold));
                    }
                }
            }
        }
        // ---- the open call itself
        if s.open_inv.is_some() && s.open_ret.is_none() {
            if ei.judged[opener] {
                o.violate("C08:pending:open", format!("stream {tag}: new_stream_channel at endpoint {opener} is still pending although its connection has ended ({})", ei.why[opener]));
            } else if !ei.any_fault && plan.accept[1 - opener] {
                o.violate("C04:open-stall", format!("stream {tag}: new_stream_channel at endpoint {opener} is still pending at quiescence although the peer keeps accepting"));
            }
        }
        // ---- a stream the peer has established sits in the accept backlog although the application
        //      is waiting in accept_stream_channel (two tasks may call it concurrently: `&self`)
        if matches!(s.open_ret, Some((_, Ok(())))) && s.sides[1].got_stream.is_none() && !ei.any_fault && !ei.judged[1 - opener] && led.accept_pending_n[1 - opener] > 0 {
            o.violate("C04:accept-stall", format!("stream {tag}: established by endpoint {opener} and waiting in the accept backlog of endpoint {}, whose application has {} accept_stream_channel call(s) pending at quiescence", 1 - opener, led.accept_pending_n[1 - opener]));
        }
        if let Some((_, Err(e))) = &s.open_ret {
            let closed_ok = ei.judged[opener] || ei.any_fault;
            if e.contains("Closed") && !closed_ok {
                o.violate("C08:spurious-closed", format!("stream {tag}: new_stream_channel returned Closed on a live connection"));
            }
            // FlowIdRejected means: the peer rejected `max_flow_id_retries` proposals. A request that
            // was merely pending when the connection ended must report Closed.
            if e.contains("FlowIdRejected") && cfg.accountant {
                let retries = plan.eps[opener].retries.max(1);
                let rejected = wm.insts.iter().filter(|x| x.tag == Some(tag) && x.rejected.is_some()).count();
                if rejected < retries {
                    let msg = format!("stream {tag}: new_stream_channel at endpoint {opener} failed with FlowIdRejected although the peer rejected only {rejected} of its proposals (max_flow_id_retries = {retries}){}", if closed_ok { "; the connection ended while the request was pending: Closed is the answer" } else { "" });
                    o.violate(if closed_ok { "C08:open-wrong-error" } else { "C07:rejected-without-rejections" }, msg);
                }
            }
        }
    }
    // ---------------------------------------------------------- local drop on a healthy transport: a surviving
    // stream still gets everything the peer had put on the wire before the peer answered our Close
    let only_drop = !plan.faults.is_empty() && plan.faults.iter().all(|f| matches!(f.kind, FaultKind::DropMux { .. }));
    if only_drop && cfg.accountant && !plan.link.drop_after_close {
        let l = r.link.lock().unwrap();
        for (tag, s) in led.streams.iter().enumerate() {
            let opener = plan.streams[tag].opener.min(1);
            let Some(&ix) = wm.by_tag.get(&tag) else { continue };
            let inst = &wm.insts[ix];
            for rs in 0..2 {
                let x = if rs == 0 { opener } else { 1 - opener };
                let y = 1 - x;
                let (Some(d), Some(eof)) = (led.mux_dropped[x], s.sides[rs].eof) else { continue };
                if eof < d || led.mux_dropped[y].is_some() {
                    continue;
                }
                if inst.reset_sent[0].len() + inst.reset_sent[1].len() > 0 || inst.est_sent.is_none() {
                    continue;
                }
                // bytes of this flow the peer put on the wire (all of it precedes the peer's Close)
                let on_wire: u64 = l.evs.iter().filter(|e| e.stage == Stage::Sent && e.from == y && !e.injected && e.seq >= inst.connect_seq).filter_map(|e| match &*e.w { Wire::Frame(RFrame::Push { id, data }) if *id == inst.id => Some(data.len() as u64), _ => None }).sum();
                if s.sides[rs].read_total < on_wire {
                    let msg = format!("stream {tag}: endpoint {x} dropped its multiplexor (seq {d}) on a healthy transport and kept reading the stream; it saw end-of-stream (seq {eof}) after {} bytes although the peer had put {on_wire} bytes of this stream on the wire before answering the Close", s.sides[rs].read_total);
                    o.violate("C05:eof-before-inflight-data", msg.clone());
                    o.violate("C08:drop-lost-inflight-data", msg);
                }
                o.probe("read-to-eof-after-own-drop", 1);
            }
        }
    }
    // ---------------------------------------------------------- multiplexor-level calls after the end
    for x in 0..2 {
        if !ei.judged[x] {
            continue;
        }
        if led.task_end[x].is_none() {
            o.violate("C08:task-not-returned", format!("endpoint {x}: the connection has ended ({}) but the connection task has not returned at quiescence", ei.why[x]));
        }
        if let Some(inv) = led.accept_pending[x] {
            o.violate("C08:pending:accept", format!("endpoint {x}: accept_stream_channel (seq {inv}) still pending after the connection ended ({})", ei.why[x]));
        }
        if let Some(inv) = led.dg.rx_pending[x] {
            o.violate("C08:pending:get_datagram", format!("endpoint {x}: get_datagram (seq {inv}) still pending after the connection ended ({})", ei.why[x]));
        }
        if let Some(inv) = led.bind.resp_pending[x] {
            o.violate("C08:pending:next_bind_request", format!("endpoint {x}: next_bind_request (seq {inv}) still pending after the connection ended ({})", ei.why[x]));
        }
        for (k, b) in led.bind.reqs.iter().enumerate() {
            if b.4 == x && b.0 > 0 && led.bind.results[k].is_none() {
                o.violate("C08:pending:request_bind", format!("endpoint {x}: request_bind #{k} still pending after the connection ended ({})", ei.why[x]));
            }
        }
        // calls the application made only after its connection task had returned
        for (name, inv, ret, res) in &led.late[x] {
            o.probe("late-call-after-end", 1);
            if ret.is_none() {
                o.violate(&format!("C08:late-call-blocked:{name}"), format!("endpoint {x}: {name} called (seq {inv}) after the connection task had returned ({}) never completes", ei.why[x]));
                if *name == "request_bind" {
                    o.violate("C15:unresolved-after-end", format!("endpoint {x}: a bind request made (seq {inv}) after the connection had ended ({}) never resolves; `false` or Closed are the legal answers", ei.why[x]));
                }
                continue;
            }
            let legal = match *name {
                "new_stream_channel" => res == "Err(Closed)",
                "request_bind" => res == "Ok(false)" || res == "Err(Closed)" || res == "cancelled",
                _ => true,
            } || res == "cancelled";
            if !legal {
                o.violate(&format!("C08:late-call-result:{name}"), format!("endpoint {x}: {name} called after the connection had ended ({}) returned {res}; Closed (or a negative bind answer) is required", ei.why[x]));
                if *name == "request_bind" {
                    o.violate("C15:late-bind-result", format!("endpoint {x}: a bind request made after the connection had ended resolved with {res}"));
                }
            }
        }
    }
    if cfg.dgram {
        judge_datagrams(r, &led, &ei, o);
    }
    if cfg.bind {
        judge_binds(r, &led, &ei, o);
    }
    (wm, ei)
}


// ------------------------------------------------------------------ datagrams (C11)

fn judge_datagrams(r: &DuoRun, led: &Ledger, ei: &EndInfo, o: &mut Outcome) {
    let l = r.link.lock().unwrap();
    for from in 0..2 {
        let to = 1 - from;
        let cap = r.plan.eps[to].dgram_buf.max(1);
        // what the sender accepted, in order of the calls' returns
        let accepted: Vec<&DgVal> = led.dg.sent[from].iter().filter(|x| x.2.is_ok()).map(|x| &x.1).collect();
        for (_, v, res) in &led.dg.sent[from] {
            if v.host.len() > 255 {
                if !matches!(res, Err(e) if e.contains("DatagramHostTooLong")) {
                    o.violate("C11:long-host-accepted", format!("send_datagram with a {}-byte host returned {res:?}", v.host.len()));
                }
            } else if let Err(e) = res {
                if !(e.contains("Closed") && (ei.judged[from] || ei.any_fault)) {
                    o.violate("C11:send-refused", format!("send_datagram with a {}-byte host and {}-byte payload failed: {e}", v.host.len(), v.data.len()));
                }
            }
        }
        // wire: Datagram frames sent by `from` are exactly the accepted ones, in order
        let mut wi = 0usize;
        let mut model: VecDeque<DgVal> = VecDeque::new();
        let mut takes = led.dg.taken[to].iter().peekable();
        let mut bad = false;
        let mut drops = 0u64;
        let mut full_hits = 0u64;
        for e in &l.evs {
            if e.from != from || e.injected {
                continue;
            }
            let Wire::Frame(RFrame::Datagram { id, port, host, data }) = &*e.w else { continue };
            let val = DgVal { flow: *id, host: host.clone(), port: *port, data: data.clone() };
            match e.stage {
                Stage::Sent => {
                    if accepted.get(wi).copied() != Some(&val) {
                        o.violate("C11:wire-mismatch", format!("datagram #{wi} sent by endpoint {from} differs on the wire from what send_datagram accepted (flow {id:x}, host {}B, port {port}, payload {}B)", host.len(), data.len()));
                        bad = true;
                    }
                    wi += 1;
                }
                Stage::Consumed => {
                    // the application's takes that happened before this arrival
                    while let Some((sq, d)) = takes.peek() {
                        if *sq < e.seq {
                            match model.pop_front() {
                                Some(x) if &x == d => {}
                                Some(x) => {
                                    o.violate("C11:delivery-mismatch", format!("endpoint {to} received a datagram (flow {:x}, host {}B, port {}, payload {}B) that is not the next accepted one (flow {:x}, host {}B, port {}, payload {}B): modified, reordered or duplicated", d.flow, d.host.len(), d.port, d.data.len(), x.flow, x.host.len(), x.port, x.data.len()));
                                    bad = true;
                                }
                                None => {
                                    o.violate("C11:delivery-mismatch", format!("endpoint {to} received a datagram although none was outstanding (duplicate?)"));
                                    bad = true;
                                }
                            }
                            takes.next();
                        } else {
                            break;
                        }
                    }
                    if led.task_end[to].as_ref().is_some_and(|(q, _)| *q < e.seq) {
                        continue;
                    }
                    if model.len() < cap {
                        model.push_back(val);
                        if model.len() == cap {
                            full_hits += 1;
                        }
                    } else {
                        drops += 1;
                    }
                }
                _ => {}
            }
            if bad {
                break;
            }
        }
        if bad {
            continue;
        }
        for (_, d) in takes {
            match model.pop_front() {
                Some(x) if &x == d => {}
                _ => {
                    o.violate("C11:delivery-mismatch", format!("endpoint {to} received a datagram (flow {:x}, payload {}B) that is not the next one the exact bounded-buffer model holds", d.flow, d.data.len()));
                    bad = true;
                    break;
                }
            }
        }
        o.probe("dgram-legit-drop", drops);
        o.probe("dgram-buffer-exactly-full", full_hits);
        if bad {
            continue;
        }
        // a datagram may be missing only if the buffer was full or the connection ended
        let receiving = led.dg.rx_pending[to].is_some();
        if !model.is_empty() && receiving && !ei.judged[to] {
            o.violate("C11:undelivered", format!("{} datagrams are in endpoint {to}'s buffer by the exact model but its application is blocked in get_datagram at quiescence", model.len()));
        }
        if !ei.any_fault && led.task_end[from].is_none() && led.task_end[to].is_none() && wi < accepted.len() {
            o.violate("C11:not-transmitted", format!("endpoint {from} accepted {} datagrams but only {wi} reached the wire at quiescence", accepted.len()));
        }
    }
    // no datagram terminates the connection
    if !ei.any_fault {
        if led.task_end.iter().any(|t| t.is_some()) && led.mux_dropped.iter().all(|d| d.is_none()) {
            let mut ends: Vec<(u64, usize, String)> = led.task_end.iter().enumerate().filter_map(|(x, t)| t.as_ref().map(|(q, r)| (*q, x, r.clone()))).collect();
            ends.sort();
            let msg = format!("nothing ended the connection, yet connection tasks returned: {}", ends.iter().map(|(q, x, r)| format!("endpoint {x} -> {r} (seq {q})")).collect::<Vec<_>>().join(", "));
            o.violate("C11:connection-terminated", msg.clone());
            o.violate("C10:connection-terminated", msg);
        }
    }
}

// ------------------------------------------------------------------ binds (C15)

fn judge_binds(r: &DuoRun, led: &Ledger, ei: &EndInfo, o: &mut Outcome) {
    let l = r.link.lock().unwrap();
    // flow id of each request as seen on the wire (matched through the unique host)
    let mut wire_id: HashMap<Vec<u8>, (u32, u8, u16)> = HashMap::new();
    for e in &l.evs {
        if e.stage != Stage::Sent || e.injected {
            continue;
        }
        if let Wire::Frame(RFrame::Bind { id, ty, port, host }) = &*e.w {
            wire_id.insert(host.clone(), (*id, *ty, *port));
        }
    }
    for (k, (inv, host, port, ty, from)) in led.bind.reqs.iter().enumerate() {
        if *inv == 0 {
            continue;
        }
        let to = 1 - *from;
        let seen: Vec<&BindSeen> = led.bind.seen[to].iter().filter(|s| &s.host == host).collect();
        if seen.len() > 1 {
            o.violate("C15:shown-twice", format!("bind request #{k} was shown {} times to the peer application", seen.len()));
        }
        let wid = wire_id.get(host);
        if let Some(s) = seen.first() {
            let want_ty = if *ty == 3 { 3 } else { 1 };
            if s.port != *port || s.ty != want_ty || wid.is_some_and(|w| w.0 != s.flow) {
                o.violate("C15:shown-mismatch", format!("bind request #{k} (type {want_ty}, port {port}, wire flow id {:?}) was shown to the peer as type {}, port {}, flow id {:x}", wid.map(|w| w.0), s.ty, s.port, s.flow));
            }
        }
        let disabled = r.plan.eps[to].bind_buf == 0;
        let ended = ei.any_fault || ei.judged[*from] || ei.judged[to];
        let accepted_by_peer = seen.first().is_some_and(|s| s.reply == Some(true));
        let refused_by_peer = seen.first().is_some_and(|s| s.reply == Some(false));
        match &led.bind.results[k] {
            None => {
                // legitimately pending only while the peer application has not answered
                if ei.judged[*from] {
                    // the requester's own connection has ended: `false` or Closed is owed (C08 reports
                    // the same situation as a blocked call)
                    o.violate("C15:unresolved-after-end", format!("bind request #{k} is still pending at quiescence although the requester's connection has ended ({})", ei.why[*from]));
                    continue;
                }
                // a request that has reached the peer endpoint while one of its application's calls
                // to next_bind_request is waiting must have been handed to that call by quiescence
                let consumed = wid.is_some_and(|w| l.evs.iter().any(|e| e.stage == Stage::Consumed && !e.injected && matches!(&*e.w, Wire::Frame(RFrame::Bind { id, host: h, .. }) if *id == w.0 && h == host)));
                if !ended && !disabled && seen.is_empty() && consumed && led.bind.resp_waiting[to] > 0 {
                    o.violate("C15:not-shown-to-waiting-application", format!("bind request #{k} has reached the peer endpoint and {} call(s) of its application to next_bind_request are waiting, yet the request was never handed to any of them", led.bind.resp_waiting[to]));
                }
                if !ended && (disabled || accepted_by_peer || refused_by_peer) {
                    o.violate("C15:unresolved", format!("bind request #{k} is still pending at quiescence although the peer {}", if disabled { "does not accept binds" } else if accepted_by_peer { "accepted it" } else { "rejected or dropped it" }));
                }
            }
            Some((ret, Ok(true))) => {
                let ok = seen.first().is_some_and(|s| s.reply == Some(true) && s.replied_at.is_some_and(|t| t < *ret));
                if !ok {
                    o.violate("C15:true-without-accept", format!("bind request #{k} resolved `true` (seq {ret}) but the peer application had not accepted that request (seen: {:?})", seen.first().map(|s| (&s.action, s.reply, s.replied_at))));
                }
            }
            Some((ret, Ok(false))) => {
                if accepted_by_peer && !ended && seen.first().is_some_and(|s| s.replied_at.is_some_and(|t| t < *ret)) {
                    o.violate("C15:false-despite-accept", format!("bind request #{k} resolved `false` although the peer application accepted it"));
                }
                if !ended && !disabled && seen.is_empty() {
                    o.violate("C15:false-without-answer", format!("bind request #{k} resolved `false` although the peer application was never shown it and accepts binds"));
                }
                if !ended && seen.first().is_some_and(|s| s.reply.is_none()) {
                    o.violate("C15:false-without-answer", format!("bind request #{k} resolved `false` while the peer application still holds it unanswered"));
                }
            }
            Some((_, Err(e))) => {
                if !(e.contains("Closed") && ended) && e != "cancelled" {
                    o.violate("C15:error-result", format!("bind request #{k} failed with {e} on a live connection"));
                }
            }
        }
    }
}

/// C06 leak probe: after the probe phase every id ever used must be answered with Reset by an
/// endpoint whose application no longer holds a stream with that id.
pub fn judge_leaks(r: &DuoRun, wm: &WireModel, ei: &EndInfo, o: &mut Outcome) {
    if !r.plan.probe_leaks || r.end != End::Quiescent || ei.any_fault {
        return;
    }
    let led = r.led.borrow();
    let l = r.link.lock().unwrap();
    let evs = &l.evs[r.probe_from.min(l.evs.len())..];
    let probed: Vec<(usize, u32, u64)> = evs.iter().filter(|e| e.injected && e.stage == Stage::Consumed).filter_map(|e| match &*e.w { Wire::Frame(RFrame::Ack { id, n: 0 }) => Some((1 - e.from, *id, e.seq)), _ => None }).collect();
    let mut n_probed = 0;
    for (at, id, pseq) in probed {
        n_probed += 1;
        let answered = evs.iter().any(|e| e.stage == Stage::Sent && e.from == at && !e.injected && matches!(&*e.w, Wire::Frame(RFrame::Reset { id: i }) if *i == id));
        // excused: the application at `at` still holds a stream (or a pending request) with this id
        let mut held = false;
        for inst in wm.insts.iter().filter(|i| i.id == id) {
            if let Some(t) = inst.tag {
                if t < led.streams.len() {
                    let side = if at == inst.requester { 0 } else { 1 };
                    let sl = &led.streams[t].sides[side];
                    // judged at the instant of the probe
                    if sl.got_stream.is_some() && sl.dropped.is_none_or(|d| d > pseq) {
                        held = true;
                    }
                    if side == 0 && led.streams[t].open_inv.is_some() && led.streams[t].open_ret.as_ref().is_none_or(|r| r.0 > pseq) {
                        held = true;
                    }
                }
            }
        }
        // bind requests still unanswered hold their id at the requester
        for (k, b) in led.bind.reqs.iter().enumerate() {
            if b.4 == at && led.bind.results[k].as_ref().is_none_or(|r| r.0 > pseq) {
                held = true;
            }
        }
        if !answered && !held {
            o.violate("C06:slot-leak", format!("endpoint {at} did not answer a probe Acknowledge for flow id {id:x} with Reset: it still holds state for a stream neither application has"));
        }
    }
    o.probe("leak-probes", n_probed);
}

//! One real endpoint against a scripted raw peer that speaks the reference codec (C10, C13, C16).

use crate::duo::{EpCfg, LinkCfg, Mux, ScriptRng, SimInstant, pbyte};
use crate::exec::*;
use crate::link::*;
use crate::refcodec::RFrame;
use penguin_mux::Multiplexor;
use penguin_mux::frame::BindType;
use serde::{Deserialize, Serialize};
use simcore::{Outcome, Sched};
use std::cell::RefCell;
use std::collections::{BTreeMap, HashMap};
use std::rc::Rc;
use std::sync::{Arc, Mutex};
use std::task::{Poll, Waker};
use std::time::Duration;
use tokio::io::{AsyncReadExt, AsyncWriteExt};

/// Everything the raw peer has seen and a wake-up list for scripted waits.
#[derive(Default)]
pub struct PeerState {
    pub got: Vec<(u64, Wire)>,
    pub wakers: Vec<Waker>,
    pub eof: bool,
    pub resets: BTreeMap<u32, u64>,
    /// Connect frames sent by the endpoint: (id, host)
    pub ep_connects: Vec<(u32, Vec<u8>)>,
    pub ep_binds: Vec<u32>,
    /// handshake acknowledgements from the endpoint for our Connects
    pub acked: HashMap<u32, u32>,
    /// credit we hold per flow for our own Push frames
    pub credit: HashMap<u32, i64>,
    /// bytes received from the endpoint per flow
    pub rx_bytes: HashMap<u32, Vec<u8>>,
    pub finish_from_ep: HashMap<u32, u64>,
    pub pongs: u64,
}
pub type Peer = Rc<RefCell<PeerState>>;
impl PeerState {
    fn wake(&mut self) {
        for w in self.wakers.drain(..) {
            w.wake();
        }
    }
}
/// wait until `cond` holds (re-evaluated whenever the peer receives something) or the peer saw EOF
pub async fn wait_until(p: &Peer, mut cond: impl FnMut(&PeerState) -> bool) -> bool {
    std::future::poll_fn(|cx| {
        let mut s = p.borrow_mut();
        if cond(&s) {
            return Poll::Ready(true);
        }
        if s.eof {
            return Poll::Ready(false);
        }
        s.wakers.push(cx.waker().clone());
        Poll::Pending
    })
    .await
}

pub struct Solo {
    pub sim: Sim<LinkWorld>,
    pub link: L,
    pub seq: Seq,
    pub mux: Rc<Mux>,
    pub raw: Rc<RefCell<Raw>>,
    pub peer: Peer,
    pub task_end: Rc<RefCell<Option<(u64, String, Duration)>>>,
    pub world: Rc<RefCell<LinkWorld>>,
}

thread_local! {
    /// delay between `Multiplexor::new_detailed` and the start of the connection task (C16)
    pub static TASK_START_DELAY_MS: std::cell::Cell<u64> = const { std::cell::Cell::new(0) };
    /// the connection task of the next `setup` stays subject to tokio's cooperative budget
    /// (see `Sim::spawn_constrained`)
    pub static SOLO_COOP: std::cell::Cell<bool> = const { std::cell::Cell::new(false) };
    /// spurious polls of the connection task / the bridge in the next `setup` (see `Sim::spurious`)
    pub static SOLO_SPURIOUS: std::cell::Cell<bool> = const { std::cell::Cell::new(false) };
}

/// policy of the peer's receive loop
#[derive(Clone, Copy)]
pub struct RxPolicy {
    /// acknowledge every Push of these flows at once (conforming receiver)
    pub ack_pushes: bool,
    /// answer the endpoint's Connect whose host starts with "req" with an Acknowledge
    pub ack_req_connects: Option<u32>,
}

pub fn setup(cfg: &EpCfg, opts: penguin_mux::config::Options, link_cfg: &LinkCfg, weights: [u32; NCLS], sched: &Sched, record: bool, policy: RxPolicy, no_ack: Rc<RefCell<Vec<u32>>>) -> Solo {
    let seq = Seq::default();
    let lat_seed = match sched {
        Sched::Seeded(s) => *s,
        Sched::Recorded(_) => 7,
    };
    let link = Link::new(link_cfg.window.max(1), link_cfg.latency_ms, seq.clone(), lat_seed ^ 0x50f0);
    link.lock().unwrap().drop_data_after_close_sent = link_cfg.drop_after_close;
    link.lock().unwrap().waits_for_transport_close = [link_cfg.ws_client == 1, false];
    link.lock().unwrap().backpressure_in_flush = link_cfg.bp_flush;
    let world = Rc::new(RefCell::new(LinkWorld::new(link.clone())));
    let mut sim = Sim::new(sched, weights, record, world.clone(), seq.clone());
    sim.spurious = SOLO_SPURIOUS.with(|c| c.get());
    let rng = ScriptRng { vals: Arc::new(Mutex::new(cfg.ids.iter().copied().collect())), base: 1 << 28, ctr: 0 };
    let (m, t) = Multiplexor::new_detailed::<_, SimInstant>(SimWs { link: link.clone(), me: 0 }, opts, rng);
    let task_end = Rc::new(RefCell::new(None));
    let (te, seq2, t0) = (task_end.clone(), seq.clone(), tokio::time::Instant::now());
    let start_delay = TASK_START_DELAY_MS.with(|c| c.get());
    let conn_task = async move {
        // the application may start the connection task some time after building the multiplexor
        if start_delay > 0 {
            tokio::time::sleep(Duration::from_millis(start_delay)).await;
        }
        let r = t.into_task().await;
        *te.borrow_mut() = Some((seq2.tick(), format!("{r:?}"), t0.elapsed()));
    };
    if SOLO_COOP.with(|c| c.get()) {
        sim.spawn_constrained("conn0", CLS_CONN0, conn_task);
    } else {
        sim.spawn("conn0", CLS_CONN0, conn_task);
    }
    let raw = Rc::new(RefCell::new(Raw::new(&link, 1)));
    let peer: Peer = Default::default();
    // ---- the peer's receive loop
    let (raw2, peer2, seq3) = (raw.clone(), peer.clone(), seq.clone());
    sim.spawn("peer-rx", CLS_CONN1, async move {
        loop {
            let w = std::future::poll_fn(|cx| raw2.borrow_mut().poll_recv(cx)).await;
            let now = seq3.tick();
            let mut p = peer2.borrow_mut();
            match &w {
                None => {
                    p.eof = true;
                    p.wake();
                    break;
                }
                Some(Wire::Frame(f)) => match f {
                    RFrame::Reset { id } => *p.resets.entry(*id).or_insert(0) += 1,
                    RFrame::Connect { id, host, .. } => {
                        p.ep_connects.push((*id, host.clone()));
                        if let Some(w) = policy.ack_req_connects {
                            if host.starts_with(b"req") {
                                p.credit.insert(*id, 0);
                                raw2.borrow_mut().send(RFrame::Ack { id: *id, n: w });
                            }
                        }
                    }
                    RFrame::Bind { id, .. } => p.ep_binds.push(*id),
                    RFrame::Ack { id, n } => {
                        if p.acked.contains_key(id) || p.credit.contains_key(id) {
                            *p.credit.entry(*id).or_insert(0) += *n as i64;
                        } else {
                            p.acked.insert(*id, *n);
                            p.credit.insert(*id, *n as i64);
                        }
                    }
                    RFrame::Push { id, data } => {
                        p.rx_bytes.entry(*id).or_default().extend(data);
                        if policy.ack_pushes && !no_ack.borrow().contains(id) {
                            raw2.borrow_mut().send(RFrame::Ack { id: *id, n: 1 });
                        }
                    }
                    RFrame::Finish { id } => {
                        p.finish_from_ep.insert(*id, now);
                    }
                    _ => {}
                },
                Some(Wire::Pong) => p.pongs += 1,
                Some(_) => {}
            }
            if let Some(w) = w {
                p.got.push((now, w));
            }
            p.wake();
        }
    });
    Solo { sim, link, seq, mux: Rc::new(m), raw, peer, task_end, world }
}

// =================================================================== C10

#[derive(Serialize, Deserialize, Clone, Debug, PartialEq)]
pub struct FOp {
    /// 0 Connect, 1 Ack(1), 2 Reset, 3 Finish, 4 Push(0B), 5 Push(1B), 6 Push(nB), 7 Bind(1), 8 Bind(3), 9 Datagram, 10 Ack(0), 11 Ack(big)
    pub op: u8,
    /// 0 zero, 1 bystander, 2 victim, 3 endpoint-requested, 4 bind-requested, 5 pending-connect, 6 unknown-1, 7 unknown-2
    pub id: u8,
    pub yields: usize,
}
pub const N_OPS: u8 = 12;
pub const N_IDS: u8 = 8;
#[derive(Serialize, Deserialize, Clone, Debug)]
pub struct C10Plan {
    pub ep: EpCfg,
    pub link: LinkCfg,
    pub weights: [u32; NCLS],
    pub peer_rwnd: u32,
    pub seqn: Vec<FOp>,
    pub bystander_bytes: usize,
    pub garbage: Option<u8>,
    /// the endpoint's application shuts down its write side of the victim stream (and of every
    /// stream the fault sequence opens) before holding it: the flow is half-closed locally
    #[serde(default)]
    pub victim_shutdown: bool,
    /// the endpoint's application accepts the two streams of the set-up and then no more (the
    /// penguin client never accepts any); the peer then opens this many further streams at once
    #[serde(default)]
    pub flood: usize,
    /// after the message that is not a frame the peer is never heard of again: its direction goes
    /// silent (nothing fails, no Close is answered)
    #[serde(default)]
    pub silent_after_garbage: bool,
    /// the connection task stays subject to tokio's cooperative budget
    #[serde(default)]
    pub coop: bool,
    /// a Connect travels right behind the message that is not a frame (it has arrived when the
    /// connection ends and is looked at during the wind-down)
    #[serde(default)]
    pub connect_behind_garbage: bool,
    /// once the fault sequence is over and everything has gone quiet, the endpoint's application
    /// lets go of every stream object it holds (unread frames and all). For a flow that the
    /// sequence has already ended (the peer reset it) that must not put anything on the wire:
    /// never a Reset in reply to a Reset, however late
    #[serde(default)]
    pub drop_held: bool,
}

const ID_BYS: u32 = 0xb0;
const ID_VIC: u32 = 0xe0;
const ID_U1: u32 = 0x0a01;
const ID_U2: u32 = 0x0a02;
const ID_PROBE: u32 = 0xf0f0;

#[derive(Clone, Debug, PartialEq)]
enum St {
    Unknown,
    /// established; `unread` frames sit in the endpoint's receive queue (its application never reads)
    Est { unread: u32, fin: bool, reads: bool },
    Requested,
    BindRequested,
    /// a reaction the statement / PROTOCOL.md leaves open happened: no longer judged
    Tainted,
}

pub fn run_c10(plan: &C10Plan, sched: &Sched, record: bool) -> Outcome {
    block_on(run_c10_async(plan.clone(), sched.clone(), record))
}

async fn run_c10_async(plan: C10Plan, sched: Sched, record: bool) -> Outcome {
    let no_ack = Rc::new(RefCell::new(vec![]));
    SOLO_COOP.with(|c| c.set(plan.coop));
    let mut s = setup(&plan.ep, plan.ep.options(), &plan.link, plan.weights, &sched, record, RxPolicy { ack_pushes: true, ack_req_connects: Some(plan.peer_rwnd.max(1)) }, no_ack);
    SOLO_COOP.with(|c| c.set(false));
    let viol: Rc<RefCell<Vec<(String, String)>>> = Default::default();
    let probes: Rc<RefCell<BTreeMap<String, u64>>> = Default::default();
    let nbytes = plan.bystander_bytes;
    // ---- the endpoint's applications
    // pending results of multiplexor-level calls
    let pend_open: Rc<RefCell<Vec<String>>> = Default::default();
    let pend_bind: Rc<RefCell<Option<String>>> = Default::default();
    let req_result: Rc<RefCell<Option<String>>> = Default::default();
    let accept_end: Rc<RefCell<Option<String>>> = Default::default();
    let bys_read: Rc<RefCell<(usize, bool, bool)>> = Rc::new(RefCell::new((0, false, false))); // (bytes, eof, done)
    let held: Rc<RefCell<Vec<penguin_mux::MuxStream>>> = Default::default();
    let sp = s.sim.spawner();
    {
        let (m, v, br, held, ae, sp2) = (s.mux.clone(), viol.clone(), bys_read.clone(), held.clone(), accept_end.clone(), sp.clone());
        let vshut = plan.victim_shutdown;
        let stop_after = if plan.flood > 0 { 2 } else { usize::MAX };
        s.sim.spawn("acceptor", CLS_OTHER, async move {
            let mut taken = 0usize;
            loop {
                if taken >= stop_after {
                    // an application that has stopped accepting (it still holds the multiplexor)
                    std::future::pending::<()>().await;
                }
                taken += 1;
                match m.accept_stream_channel().await {
                    Ok(st) => {
                        if st.dest_host.starts_with(b"bys") {
                            // bystander: checked traffic both ways, in two phases separated by quiescence barriers
                            let (rd, mut wr) = tokio::io::split(st);
                            let (v2, br2) = (v.clone(), br.clone());
                            sp2.spawn("bys-reader", CLS_READER, async move {
                                let mut rd = rd;
                                let mut buf = [0u8; 7];
                                let mut off = 0usize;
                                loop {
                                    match rd.read(&mut buf).await {
                                        Ok(0) => {
                                            br2.borrow_mut().1 = true;
                                            break;
                                        }
                                        Ok(k) => {
                                            for (i, b) in buf[..k].iter().enumerate() {
                                                if *b != pbyte(77, 1, (off + i) as u64) {
                                                    v2.borrow_mut().push(("C10:bystander-corrupt".into(), format!("bystander stream: byte {} read by the application is wrong", off + i)));
                                                    break;
                                                }
                                            }
                                            off += k;
                                            br2.borrow_mut().0 = off;
                                        }
                                        Err(e) => {
                                            v2.borrow_mut().push(("C10:bystander-corrupt".into(), format!("bystander read error {e}")));
                                            break;
                                        }
                                    }
                                }
                                br2.borrow_mut().2 = true;
                                std::mem::forget(rd);
                            });
                            let v3 = v.clone();
                            sp2.spawn("bys-writer", CLS_WRITER, async move {
                                let mut off = 0usize;
                                for phase in 0..2 {
                                    if phase == 1 {
                                        tokio::time::sleep(Duration::from_secs(5000)).await;
                                    }
                                    let mut left = nbytes;
                                    while left > 0 {
                                        let k = left.min(1 + (off % 5));
                                        let data: Vec<u8> = (0..k).map(|i| pbyte(77, 0, (off + i) as u64)).collect();
                                        if let Err(e) = wr.write_all(&data).await {
                                            v3.borrow_mut().push(("C10:bystander-write-failed".into(), format!("bystander write failed at offset {off}: {e}")));
                                            return;
                                        }
                                        off += k;
                                        left -= k;
                                        sim_yield().await;
                                    }
                                }
                                std::mem::forget(wr);
                            });
                        } else {
                            // victim and every stream the fault sequence opens: held, never read
                            let mut st = st;
                            if vshut {
                                st.shutdown().await.ok();
                            }
                            held.borrow_mut().push(st);
                        }
                    }
                    Err(e) => {
                        *ae.borrow_mut() = Some(format!("{e:?}"));
                        break;
                    }
                }
            }
        });
    }
    {
        let (m, rr, held) = (s.mux.clone(), req_result.clone(), held.clone());
        s.sim.spawn("req-open", CLS_OTHER, async move {
            let r = m.new_stream_channel(b"req", 1).await;
            *rr.borrow_mut() = Some(match r {
                Ok(st) => {
                    held.borrow_mut().push(st);
                    "Ok".into()
                }
                Err(e) => format!("{e:?}"),
            });
        });
    }
    {
        let (m, po, held) = (s.mux.clone(), pend_open.clone(), held.clone());
        s.sim.spawn("pend-open", CLS_OTHER, async move {
            let r = m.new_stream_channel(b"pend", 2).await;
            po.borrow_mut().push(match r {
                Ok(st) => {
                    held.borrow_mut().push(st);
                    "Ok".into()
                }
                Err(e) => format!("{e:?}"),
            });
        });
    }
    {
        let (m, pb) = (s.mux.clone(), pend_bind.clone());
        s.sim.spawn("pend-bind", CLS_OTHER, async move {
            let r = m.request_bind(b"bnd", 3, BindType::Stream).await;
            *pb.borrow_mut() = Some(format!("{r:?}"));
        });
    }
    let dg_end: Rc<RefCell<Option<String>>> = Default::default();
    {
        let (m, de) = (s.mux.clone(), dg_end.clone());
        s.sim.spawn("dgrx", CLS_OTHER, async move {
            loop {
                if let Err(e) = m.get_datagram().await {
                    *de.borrow_mut() = Some(format!("{e:?}"));
                    break;
                }
            }
        });
    }
    if plan.ep.bind_buf > 0 {
        let m = s.mux.clone();
        s.sim.spawn("responder", CLS_OTHER, async move {
            // accepts every bind request the fault sequence makes
            while let Ok(req) = m.next_bind_request().await {
                req.reply(true).ok();
            }
        });
    }
    // ---- the peer's script
    let model: Rc<RefCell<HashMap<u32, St>>> = Default::default();
    let expect_resets: Rc<RefCell<BTreeMap<u32, u64>>> = Default::default();
    let sent_frames: Rc<RefCell<Vec<String>>> = Default::default();
    let fault_done: Rc<RefCell<Option<u64>>> = Default::default();
    let probe_ok: Rc<RefCell<Option<bool>>> = Default::default();
    let garbage_at: Rc<RefCell<Option<u64>>> = Default::default();
    {
        let (raw, peer, plan2, model, er, sf, fd, pk, ga, seq, pr) = (s.raw.clone(), s.peer.clone(), plan.clone(), model.clone(), expect_resets.clone(), sent_frames.clone(), fault_done.clone(), probe_ok.clone(), garbage_at.clone(), s.seq.clone(), probes.clone());
        let held_d = held.clone();
        let ep_rwnd = plan.ep.rwnd;
        let binds_on = plan.ep.bind_buf > 0;
        let lk_sil = s.link.clone();
        s.sim.spawn("peer-tx", CLS_OTHER, async move {
            // --- conforming setup
            raw.borrow_mut().send(RFrame::Connect { id: ID_BYS, rwnd: plan2.peer_rwnd.max(1), port: 9, host: b"bys".to_vec() });
            raw.borrow_mut().send(RFrame::Connect { id: ID_VIC, rwnd: plan2.peer_rwnd.max(1), port: 9, host: b"vic".to_vec() });
            if !wait_until(&peer, |p| p.acked.contains_key(&ID_BYS) && p.acked.contains_key(&ID_VIC) && p.ep_connects.iter().any(|c| c.1 == b"req") && p.ep_connects.iter().any(|c| c.1 == b"pend") && !p.ep_binds.is_empty()).await {
                return;
            }
            let (id_req, id_pend, id_bind) = {
                let p = peer.borrow();
                (p.ep_connects.iter().find(|c| c.1 == b"req").unwrap().0, p.ep_connects.iter().find(|c| c.1 == b"pend").unwrap().0, p.ep_binds[0])
            };
            {
                let mut m = model.borrow_mut();
                m.insert(ID_BYS, St::Est { unread: 0, fin: false, reads: true });
                m.insert(ID_VIC, St::Est { unread: 0, fin: false, reads: false });
                m.insert(id_req, St::Est { unread: 0, fin: false, reads: false });
                m.insert(id_pend, St::Requested);
                m.insert(id_bind, St::BindRequested);
            }
            // --- bystander traffic from the peer, phase 1 (runs concurrently with the fault phase below
            //     through the scheduler: this actor yields between frames)
            let mut boff = 0usize;
            let mut bleft = plan2.bystander_bytes;
            let mut send_bys = |raw: &Rc<RefCell<Raw>>, peer: &Peer, boff: &mut usize, bleft: &mut usize| -> bool {
                if *bleft == 0 {
                    return false;
                }
                let c = peer.borrow().credit.get(&ID_BYS).copied().unwrap_or(0);
                if c <= 0 {
                    return false;
                }
                *peer.borrow_mut().credit.get_mut(&ID_BYS).unwrap() -= 1;
                let k = (*bleft).min(1 + (*boff % 6));
                let d: Vec<u8> = (0..k).map(|i| pbyte(77, 1, (*boff + i) as u64)).collect();
                raw.borrow_mut().send(RFrame::Push { id: ID_BYS, data: d });
                *boff += k;
                *bleft -= k;
                true
            };
            // --- a burst of further Connects at an application that accepts no more
            for k in 0..plan2.flood {
                let id = 0x0f10_0000 + k as u32;
                model.borrow_mut().insert(id, St::Est { unread: 0, fin: false, reads: false });
                sf.borrow_mut().push(format!("Connect {{ id: {id:x} }}"));
                raw.borrow_mut().send(RFrame::Connect { id, rwnd: 2, port: 1, host: format!("fl{k}").into_bytes() });
            }
            // --- the fault sequence
            for f in &plan2.seqn {
                send_bys(&raw, &peer, &mut boff, &mut bleft);
                let id = match f.id % N_IDS {
                    0 => 0,
                    1 => ID_BYS,
                    2 => ID_VIC,
                    3 => id_req,
                    4 => id_bind,
                    5 => id_pend,
                    6 => ID_U1,
                    _ => ID_U2,
                };
                let op = f.op % N_OPS;
                // the bystander is only ever addressed by frames that must leave it undisturbed
                if id == ID_BYS && op != 0 {
                    continue;
                }
                let frame = match op {
                    0 => RFrame::Connect { id, rwnd: 3, port: 1, host: b"flt".to_vec() },
                    1 => RFrame::Ack { id, n: 1 },
                    2 => RFrame::Reset { id },
                    3 => RFrame::Finish { id },
                    4 => RFrame::Push { id, data: vec![] },
                    5 => RFrame::Push { id, data: vec![0x55] },
                    6 => RFrame::Push { id, data: vec![0x66; 300] },
                    7 => RFrame::Bind { id, ty: 1, port: 7, host: b"h".to_vec() },
                    8 => RFrame::Bind { id, ty: 3, port: 7, host: vec![] },
                    9 => RFrame::Datagram { id, port: 5, host: b"d".to_vec(), data: vec![1, 2, 3, 4, 5] },
                    10 => RFrame::Ack { id, n: 0 },
                    _ => RFrame::Ack { id, n: u32::MAX },
                };
                // ---- reference model: what PROTOCOL.md / the statement determine
                {
                    let mut m = model.borrow_mut();
                    let st = m.get(&id).cloned().unwrap_or(St::Unknown);
                    let mut er = er.borrow_mut();
                    let mut reset = |n: u64| *er.entry(id).or_insert(0) += n;
                    let new = match (&frame, &st) {
                        (_, St::Tainted) => St::Tainted,
                        (RFrame::Datagram { .. }, s) => s.clone(),
                        (RFrame::Bind { .. }, s) => {
                            if !binds_on {
                                reset(1);
                                s.clone()
                            } else {
                                // passed to the application, which answers Finish: flows are untouched
                                s.clone()
                            }
                        }
                        (RFrame::Reset { .. }, _) => St::Unknown,
                        (RFrame::Connect { .. }, St::Unknown) => {
                            if id == 0 {
                                reset(1);
                                St::Unknown
                            } else {
                                St::Est { unread: 0, fin: false, reads: false }
                            }
                        }
                        (RFrame::Connect { .. }, s) => {
                            reset(1);
                            s.clone()
                        }
                        (RFrame::Ack { .. } | RFrame::Finish { .. } | RFrame::Push { .. }, St::Unknown) => {
                            reset(1);
                            St::Unknown
                        }
                        (RFrame::Ack { .. }, St::Est { .. }) => st.clone(),
                        (RFrame::Ack { .. }, St::Requested) => St::Est { unread: 0, fin: false, reads: false },
                        (RFrame::Ack { .. }, St::BindRequested) => St::Tainted,
                        (RFrame::Finish { .. }, St::Est { unread, reads, .. }) => St::Est { unread: *unread, fin: true, reads: *reads },
                        (RFrame::Finish { .. }, St::Requested) => St::Tainted,
                        (RFrame::Finish { .. }, St::BindRequested) => St::Unknown,
                        (RFrame::Push { .. }, St::Est { fin: true, .. }) => St::Tainted,
                        (RFrame::Push { .. }, St::Est { unread, fin, reads }) => {
                            if *unread >= ep_rwnd {
                                // more Push frames than the advertised window: Reset of that flow only
                                reset(1);
                                *pr.borrow_mut().entry("window-overrun-by-peer".into()).or_insert(0) += 1;
                                St::Unknown
                            } else {
                                St::Est { unread: unread + 1, fin: *fin, reads: *reads }
                            }
                        }
                        (RFrame::Push { .. }, St::Requested | St::BindRequested) => St::Tainted,
                    };
                    m.insert(id, new);
                }
                sf.borrow_mut().push(format!("{frame:?}").chars().take(60).collect());
                raw.borrow_mut().send(frame);
                sim_yields(f.yields).await;
            }
            // --- let everything settle, then note where the fault phase ended
            tokio::time::sleep(Duration::from_secs(1000)).await;
            *fd.borrow_mut() = Some(seq.now());
            // --- liveness probe: a fresh Connect is acknowledged, the bystander moves more data
            raw.borrow_mut().send(RFrame::Connect { id: ID_PROBE, rwnd: 2, port: 1, host: b"probe".to_vec() });
            bleft += plan2.bystander_bytes;
            loop {
                while send_bys(&raw, &peer, &mut boff, &mut bleft) {}
                if bleft == 0 {
                    break;
                }
                let before = peer.borrow().credit.get(&ID_BYS).copied().unwrap_or(0);
                if !wait_until(&peer, |p| p.credit.get(&ID_BYS).copied().unwrap_or(0) > before.max(0)).await {
                    break;
                }
            }
            tokio::time::sleep(Duration::from_secs(10_000)).await;
            *pk.borrow_mut() = Some(peer.borrow().acked.contains_key(&ID_PROBE));
            if plan2.drop_held {
                // flows still established by the reference model are aborted by this (a Reset is in
                // order, or a Finish has been sent: left open); flows the sequence has ended owe nothing
                let mut ended = 0u64;
                for (_, st) in model.borrow_mut().iter_mut() {
                    match st {
                        St::Est { .. } => *st = St::Tainted,
                        St::Unknown => ended += 1,
                        _ => {}
                    }
                }
                let n = held_d.borrow().len() as u64;
                // objects of flows the reference model does not follow (the liveness probe, the
                // streams of a connect burst) are live streams too: letting go of them is an abort
                // (they are not judged below: see `plan.drop_held` in the Reset discipline)
                held_d.borrow_mut().clear();
                *pr.borrow_mut().entry("held-stream-objects-dropped-after-the-sequence".into()).or_insert(0) += n;
                if ended > 0 && n > 0 {
                    *pr.borrow_mut().entry("stale-stream-object-dropped-after-its-flow-was-ended".into()).or_insert(0) += 1;
                }
                tokio::time::sleep(Duration::from_secs(10_000)).await;
            }
            // --- optionally: a message that is not a valid frame ends the connection
            if let Some(k) = plan2.garbage {
                *ga.borrow_mut() = Some(seq.now());
                raw.borrow_mut().send_bytes(crate::duo::garbage_bytes(k));
                if plan2.connect_behind_garbage {
                    raw.borrow_mut().send(RFrame::Connect { id: 0x0f20_0000, rwnd: 2, port: 1, host: b"late".to_vec() });
                }
                if plan2.silent_after_garbage {
                    // (only once the endpoint has taken the message: a silence that swallows it
                    // ends nothing)
                    for _ in 0..100_000 {
                        if lk_sil.lock().unwrap().evs.iter().any(|e| e.stage == Stage::Consumed && matches!(&*e.w, Wire::Garbage(_))) {
                            lk_sil.lock().unwrap().cut(1, false, crate::link::SrcMode::Silent, false);
                            break;
                        }
                        sim_yield().await;
                    }
                }
            }
        });
    }
    let end = s.sim.run(3_000_000, crate::duo::HORIZON).await;
    // ------------------------------------------------------------ oracle
    let mut o = Outcome { digest: s.sim.digest.0 ^ s.seq.now(), steps: s.sim.steps, decisions: s.sim.decisions.take().unwrap_or_default(), ..Default::default() };
    if end != End::Quiescent {
        o.violate("HARNESS:step-budget", "no quiescence".into());
        return o;
    }
    for (c, m) in viol.borrow().iter() {
        o.violate(c, m.clone());
    }
    for (k, v) in probes.borrow().iter() {
        o.probe(k, *v);
    }
    let p = s.peer.borrow();
    let te = s.task_end.borrow().clone();
    let garbage = *garbage_at.borrow();
    let seqtxt = sent_frames.borrow().join(", ");
    let fault_phase_completed = fault_done.borrow().is_some();
    // the endpoint neither crashes nor stops serving
    match (&te, garbage) {
        (Some((q, r, _)), None) => o.violate("C10:connection-ended", format!("the connection task returned {r} (seq {q}) after the well-formed frame sequence [{seqtxt}]")),
        (Some((q, r, _)), Some(g)) if *q < g => o.violate("C10:connection-ended", format!("the connection task returned {r} (seq {q}) before the invalid message was sent; sequence [{seqtxt}]")),
        (None, Some(_)) => o.violate("C10:garbage-not-fatal", "a message that is not a valid frame did not end the connection".into()),
        (Some((_, r, _)), Some(_)) => {
            if !r.contains("InvalidFrame") {
                o.violate("C10:garbage-wrong-error", format!("a message that is not a valid frame ended the connection with {r}, not an invalid-frame error"));
            }
            // every pending operation observes the end
            // (in the connect-burst family the application has stopped calling accept_stream_channel)
            if accept_end.borrow().is_none() && plan.flood == 0 {
                o.violate("C10:pending-after-garbage", "accept_stream_channel still pending after the connection ended with an invalid frame".into());
            }
            if dg_end.borrow().is_none() {
                o.violate("C10:pending-after-garbage", "get_datagram still pending after the connection ended with an invalid frame".into());
            }
            if pend_open.borrow().is_empty() {
                o.violate("C10:pending-after-garbage", "a pending new_stream_channel is still pending after the connection ended with an invalid frame".into());
            }
            if pend_bind.borrow().is_none() {
                o.violate("C10:pending-after-garbage", "a pending request_bind is still pending after the connection ended with an invalid frame".into());
            }
            if !bys_read.borrow().2 {
                o.violate("C10:pending-after-garbage", "the bystander's read is still pending after the connection ended with an invalid frame".into());
            }
            o.probe("garbage-ended-connection", 1);
        }
        (None, None) => {}
    }
    if fault_phase_completed && te.as_ref().is_none_or(|t| garbage.is_some_and(|g| t.0 > g)) {
        // Reset discipline per flow id
        let exp = expect_resets.borrow();
        let m = model.borrow();
        let mut ids: Vec<u32> = exp.keys().chain(p.resets.keys()).copied().collect();
        ids.sort_unstable();
        ids.dedup();
        for id in ids {
            if m.get(&id) == Some(&St::Tainted) {
                o.probe("undetermined-reaction-recorded", 1);
                continue;
            }
            if plan.drop_held && !m.contains_key(&id) {
                // a live stream outside the model (liveness probe, connect burst) was let go: an abort
                continue;
            }
            let (e, g) = (exp.get(&id).copied().unwrap_or(0), p.resets.get(&id).copied().unwrap_or(0));
            if e != g {
                o.violate("C10:reset-discipline", format!("flow id {id:x}: PROTOCOL.md / the statement require {e} Reset frame(s) from the endpoint, it sent {g}; sequence [{seqtxt}]"));
            }
            if e > 0 {
                o.probe("reset-required-and-sent", 1);
            }
        }
        // streams not addressed by the offending frames keep their data and state; the endpoint keeps serving
        // (known finding: with the accept backlog full and an application that accepts no more, the
        // task waits in the hand-over of the (stream_buffer_size + 1)-th unaccepted stream and reads
        // nothing further: recognised by exactly that many of the burst's Connects having been acknowledged)
        // (every Connect of the peer that was acknowledged but is not one of the two streams the
        // application took: the burst's, and those of the fault sequence)
        let flood_acked = p.acked.keys().filter(|id| **id != ID_BYS && **id != ID_VIC).count();
        let blocked_on_backlog = plan.flood > 0 && flood_acked == plan.ep.stream_buf + 1;
        if std::env::var_os("C10_DEBUG").is_some() {
            eprintln!("flood={} buf={} acked={} probe={:?} got={:?} read={:?} want={}", plan.flood, plan.ep.stream_buf, flood_acked, probe_ok.borrow(), p.rx_bytes.get(&ID_BYS).map(|v| v.len()), bys_read.borrow().0, 2 * plan.bystander_bytes);
        }
        if plan.flood > 0 {
            o.probe(if blocked_on_backlog { "connect-burst-beyond-the-accept-backlog" } else { "connect-burst-within-the-accept-backlog" }, 1);
        }
        if blocked_on_backlog && (*probe_ok.borrow() == Some(false) || p.rx_bytes.get(&ID_BYS).map(|v| v.len()).unwrap_or(0) != 2 * plan.bystander_bytes || bys_read.borrow().0 != 2 * plan.bystander_bytes) {
            // whatever else is missing (Resets for later frames, the probe) follows from the task
            // no longer reading: one finding, not several
            o.violations.clear();
            o.violate("C10:stops-serving:accept-backlog-full", format!("the peer opened {} streams at once at an endpoint whose application accepts no more (stream_buffer_size {}): {} Connects were acknowledged, then the connection task stopped reading: the bystander stream no longer moves and a fresh Connect is not answered", plan.flood, plan.ep.stream_buf, flood_acked));
            o.nontrivial = true;
            return o;
        }
        if *probe_ok.borrow() == Some(false) {
            o.violate("C10:stopped-serving", format!("after the sequence [{seqtxt}] a fresh Connect was not acknowledged"));
        }
        if probe_ok.borrow().is_some() {
            let want = 2 * plan.bystander_bytes;
            let got = p.rx_bytes.get(&ID_BYS).map(|v| v.len()).unwrap_or(0);
            let ok = p.rx_bytes.get(&ID_BYS).is_none_or(|v| v.iter().enumerate().all(|(i, b)| *b == pbyte(77, 0, i as u64)));
            if !ok {
                o.violate("C10:bystander-corrupt", "bytes the peer received on the bystander stream are not what the application wrote".into());
            }
            if got != want || bys_read.borrow().0 != want {
                o.violate("C10:bystander-stalled", format!("bystander stream: peer received {got} of {want} bytes, the application read {} of {want}; sequence [{seqtxt}]", bys_read.borrow().0));
            }
            if bys_read.borrow().1 && garbage.is_none() {
                o.violate("C10:bystander-corrupt", "the bystander stream saw end-of-stream although nobody closed it".into());
            }
            o.probe("liveness-probe-run", 1);
        }
    }
    o.nontrivial = fault_phase_completed && !plan.seqn.is_empty();
    o.note = format!("seq=[{seqtxt}] resets={:?} task_end={:?} req={:?} pend={:?} bind={:?}", p.resets, te.map(|t| t.1), req_result.borrow(), pend_open.borrow(), pend_bind.borrow());
    drop(p);
    o
}

// =================================================================== C13 (bridge)

use crate::scriptio::*;

#[derive(Serialize, Deserialize, Clone, Debug)]
pub struct C13Plan {
    pub ep: EpCfg,
    pub link: LinkCfg,
    pub weights: [u32; NCLS],
    /// window the raw peer advertises = credit of the bridge's mux-side writer
    pub peer_rwnd: u32,
    pub rs: Vec<R>,
    pub ws: Vec<Wr>,
    pub fl: Vec<Fl>,
    pub sh: Vec<Fl>,
    /// sizes of the Push frames the peer sends (credit permitting)
    pub pushes: Vec<usize>,
    /// 0 Finish, 1 Reset, 2 nothing
    pub peer_end: u8,
    /// 0 acknowledge every frame, 1 never, 2 one batch acknowledgement after everything went quiet
    pub ack_mode: u8,
    pub peer_yields: usize,
    /// use the BufReader-wrapping constructor with this capacity instead of handing the script in directly
    pub bufreader: Option<usize>,
    /// once everything has gone quiet (and the late acknowledgements, if any, are out): 0 nothing,
    /// 1 the peer resets the flow, 2 the connection is lost (the transport reports an error).
    /// A bridge that sits on data it could not send for lack of credit then has a failed write.
    #[serde(default)]
    pub late_end: u8,
    /// the connection task and the bridge stay subject to tokio's cooperative budget
    #[serde(default)]
    pub coop: bool,
    /// the connection task and the bridge are now and then polled without having been woken
    #[serde(default)]
    pub spurious: bool,
}
fn local_byte(i: u64) -> u8 {
    pbyte(13, 0, i)
}
const ID_BRG: u32 = 0x0b13;

pub fn run_c13(plan: &C13Plan, sched: &Sched, record: bool) -> Outcome {
    block_on(run_c13_async(plan.clone(), sched.clone(), record))
}
async fn run_c13_async(plan: C13Plan, sched: Sched, record: bool) -> Outcome {
    let no_ack = Rc::new(RefCell::new(if plan.ack_mode == 0 { vec![] } else { vec![ID_BRG] }));
    SOLO_COOP.with(|c| c.set(plan.coop));
    SOLO_SPURIOUS.with(|c| c.set(plan.spurious));
    let mut s = setup(&plan.ep, plan.ep.options(), &plan.link, plan.weights, &sched, record, RxPolicy { ack_pushes: true, ack_req_connects: None }, no_ack);
    SOLO_COOP.with(|c| c.set(false));
    SOLO_SPURIOUS.with(|c| c.set(false));
    let (io, log) = ScriptIo::new(plan.rs.clone(), plan.ws.clone(), plan.fl.clone(), plan.sh.clone(), local_byte);
    let result: Rc<RefCell<Option<(u64, Result<(usize, usize), std::io::ErrorKind>)>>> = Default::default();
    {
        let (m, res, seq, bufr) = (s.mux.clone(), result.clone(), s.seq.clone(), plan.bufreader);
        let coop = plan.coop;
        let bridge = async move {
            let Ok(st) = m.accept_stream_channel().await else { return };
            let r = match bufr {
                Some(cap) => st.into_copy_bidirectional_with_buf(tokio::io::BufReader::with_capacity(cap.max(1), io)).await,
                None => st.into_copy_bidirectional_with_buf(io).await,
            };
            *res.borrow_mut() = Some((seq.tick(), r.map_err(|e| e.kind())));
        };
        if coop {
            s.sim.spawn_constrained("bridge", CLS_OTHER, bridge);
        } else {
            s.sim.spawn("bridge", CLS_OTHER, bridge);
        }
    }
    let peer_sent: Rc<RefCell<Vec<u8>>> = Default::default();
    let peer_end_at: Rc<RefCell<Option<u64>>> = Default::default();
    let batch_acked: Rc<RefCell<u32>> = Default::default();
    // (seq, bytes the local side had produced, bytes that had reached the peer, Push frames from the bridge, bridge done) at the late end
    let late_at: Rc<RefCell<Option<(u64, usize, usize, u64, bool)>>> = Default::default();
    {
        let (raw, peer, plan2, ps, pe, seq, ba) = (s.raw.clone(), s.peer.clone(), plan.clone(), peer_sent.clone(), peer_end_at.clone(), s.seq.clone(), batch_acked.clone());
        let (la, log2, res2, link2) = (late_at.clone(), log.clone(), result.clone(), s.link.clone());
        s.sim.spawn("peer-tx", CLS_OTHER, async move {
            raw.borrow_mut().send(RFrame::Connect { id: ID_BRG, rwnd: plan2.peer_rwnd.max(1), port: 1, host: b"brg".to_vec() });
            if !wait_until(&peer, |p| p.acked.contains_key(&ID_BRG)).await {
                return;
            }
            let mut off = 0u64;
            let mut starved = false;
            for n in &plan2.pushes {
                if !wait_until(&peer, |p| p.credit.get(&ID_BRG).copied().unwrap_or(0) > 0 || p.resets.contains_key(&ID_BRG)).await {
                    starved = true;
                    break;
                }
                if peer.borrow().resets.contains_key(&ID_BRG) {
                    starved = true;
                    break;
                }
                *peer.borrow_mut().credit.get_mut(&ID_BRG).unwrap() -= 1;
                let d: Vec<u8> = (0..(*n).max(1) as u64).map(|i| pbyte(13, 1, off + i)).collect();
                off += d.len() as u64;
                ps.borrow_mut().extend(&d);
                raw.borrow_mut().send(RFrame::Push { id: ID_BRG, data: d });
                sim_yields(plan2.peer_yields).await;
            }
            if !starved {
                match plan2.peer_end {
                    0 => {
                        raw.borrow_mut().send(RFrame::Finish { id: ID_BRG });
                        *pe.borrow_mut() = Some(seq.tick());
                    }
                    1 => {
                        raw.borrow_mut().send(RFrame::Reset { id: ID_BRG });
                        *pe.borrow_mut() = Some(seq.tick());
                    }
                    _ => {}
                }
            }
            if plan2.ack_mode == 2 {
                // acknowledgements arrive late, in batches, each time the system has gone quiet
                for _ in 0..6 {
                    tokio::time::sleep(Duration::from_secs(1000)).await;
                    let n = peer.borrow().rx_bytes.get(&ID_BRG).map(|_| ()).map(|_| peer.borrow().got.iter().filter(|(_, w)| matches!(w, Wire::Frame(RFrame::Push { id, .. }) if *id == ID_BRG)).count() as u32).unwrap_or(0);
                    let already = *ba.borrow();
                    if n > already {
                        *ba.borrow_mut() = n;
                        raw.borrow_mut().send(RFrame::Ack { id: ID_BRG, n: n - already });
                    } else {
                        break;
                    }
                }
            }
            if plan2.late_end % 3 != 0 {
                tokio::time::sleep(Duration::from_secs(2000)).await;
                let (got, pushes) = {
                    let p = peer.borrow();
                    (p.rx_bytes.get(&ID_BRG).map(|v| v.len()).unwrap_or(0), p.got.iter().filter(|(_, w)| matches!(w, Wire::Frame(RFrame::Push { id, .. }) if *id == ID_BRG)).count() as u64)
                };
                *la.borrow_mut() = Some((seq.tick(), log2.borrow().produced.len(), got, pushes, res2.borrow().is_some()));
                if plan2.late_end % 3 == 1 {
                    raw.borrow_mut().send(RFrame::Reset { id: ID_BRG });
                } else {
                    link2.lock().unwrap().cut(1, false, crate::link::SrcMode::Err, false);
                }
            }
        });
    }
    let end = s.sim.run(3_000_000, crate::duo::HORIZON).await;
    let mut o = Outcome { digest: s.sim.digest.0 ^ s.seq.now(), steps: s.sim.steps, decisions: s.sim.decisions.take().unwrap_or_default(), ..Default::default() };
    if end != End::Quiescent {
        o.violate("HARNESS:step-budget", "no quiescence".into());
        return o;
    }
    let p = s.peer.borrow();
    let l = log.borrow();
    let res = result.borrow().clone();
    let sent_by_peer = peer_sent.borrow();
    let got_from_a: Vec<u8> = p.rx_bytes.get(&ID_BRG).cloned().unwrap_or_default();
    let pushes_from_a = p.got.iter().filter(|(_, w)| matches!(w, Wire::Frame(RFrame::Push { id, .. }) if *id == ID_BRG)).count() as u64;
    let finishes = p.got.iter().filter(|(_, w)| matches!(w, Wire::Frame(RFrame::Finish { id }) if *id == ID_BRG)).count();
    let a_reset = p.resets.get(&ID_BRG).copied().unwrap_or(0);
    let late = *late_at.borrow();
    let peer_reset = (plan.peer_end == 1 && peer_end_at.borrow().is_some()) || (plan.late_end % 3 == 1 && late.is_some());
    let peer_finished = plan.peer_end == 0 && peer_end_at.borrow().is_some();
    let done = res.is_some();
    let desc = format!(
        "res={:?} written={}/{} sent={}/{} pushes_from_a={pushes_from_a} finishes={finishes} a_reset={a_reset} local: eof={} rerr={} werr={} ferr={} serr={} shutdown_calls={} done={} events={:?} task_end={:?}",
        res.as_ref().map(|r| r.1),
        l.written.len(),
        sent_by_peer.len(),
        got_from_a.len(),
        l.produced.len(),
        l.eof_returned,
        l.read_err,
        l.write_err,
        l.flush_err,
        l.shutdown_err,
        l.shutdown_calls,
        l.shutdown_done,
        l.events,
        s.task_end.borrow().as_ref().map(|t| t.1.clone())
    );
    // ---- faithful relay, in order, exactly once
    if !sent_by_peer.starts_with(&l.written) {
        o.violate("C13:mux-to-local-corrupt", format!("bytes written to the local side are not a prefix of what the peer pushed; {desc}"));
    }
    if !l.produced.starts_with(&got_from_a) || got_from_a.iter().enumerate().any(|(i, b)| *b != local_byte(i as u64)) {
        o.violate("C13:local-to-mux-corrupt", format!("bytes pushed to the peer are not a prefix of what the local side produced; {desc}"));
    }
    // ---- one unit of credit per frame sent
    let granted = plan.peer_rwnd.max(1) as u64
        + match plan.ack_mode {
            0 => pushes_from_a,
            1 => 0,
            _ => *batch_acked.borrow() as u64,
        };
    if pushes_from_a > granted {
        o.violate("C13:credit", format!("the bridge sent {pushes_from_a} Push frames with only {granted} units of credit ever granted; {desc}"));
    }
    if a_reset > 0 && !peer_reset && res.is_none() {
        o.violate("C13:unexpected-reset", format!("the endpoint reset the bridged flow although the bridge is still running; {desc}"));
    }
    // ---- completion
    if let Some((_, Ok((r, w)))) = &res {
        if *r != l.written.len() || *w != got_from_a.len() || *w != l.produced.len() {
            o.violate("C13:byte-counts", format!("the bridge completed with ({r}, {w}) but {} bytes were written locally and {} bytes of {} produced reached the peer; {desc}", l.written.len(), got_from_a.len(), l.produced.len()));
        }
        if finishes == 0 && !peer_reset && !(plan.late_end % 3 == 2 && late.is_some()) {
            o.violate("C13:no-finish", format!("the bridge completed Ok without sending Finish; {desc}"));
        }
        if !l.shutdown_done {
            o.violate("C13:no-local-shutdown", format!("the bridge completed Ok without shutting the local side down; {desc}"));
        }
        if l.written.len() != sent_by_peer.len() && !peer_reset {
            o.violate("C13:data-missing", format!("the bridge completed Ok but {} of {} bytes pushed by the peer were written locally; {desc}", l.written.len(), sent_by_peer.len()));
        }
        if !l.eof_returned {
            o.violate("C13:completed-without-local-eof", format!("the bridge completed Ok although the local side never reached end-of-stream; {desc}"));
        }
        let conn_lost = plan.late_end % 3 == 2 && late.is_some();
        if !(peer_finished || peer_reset || conn_lost) {
            o.violate("C13:completed-without-peer-end", format!("the bridge completed Ok although the peer never ended its direction; {desc}"));
        }
        o.probe("bridge-ok", 1);
    }
    if let Some((_, Err(_))) = &res {
        o.probe("bridge-err", 1);
        if !(l.read_err || l.write_err || l.flush_err || l.shutdown_err || peer_reset || s.task_end.borrow().is_some()) {
            o.violate("C13:spurious-error", format!("the bridge completed with an error although no operation on either side failed; {desc}"));
        }
    }
    if finishes > 1 {
        o.violate("C13:duplicate-finish", format!("{finishes} Finish frames; {desc}"));
    }
    if finishes > 0 && !l.eof_returned {
        o.violate("C13:finish-without-local-eof", format!("Finish was sent although the local side never reached end-of-stream; {desc}"));
    }
    if l.write_after_shutdown {
        o.violate("C13:write-after-local-shutdown", format!("the bridge wrote to the local side after shutting it down; {desc}"));
    }
    // ---- an operation failed: the bridge completes with that error promptly (no later than quiescence,
    //      without unrelated traffic having to wake it)
    // ---- the flow was closed from outside (Reset, connection lost) while the bridge held data it
    //      could not send for lack of credit: that write has failed, the bridge completes
    if let Some((q, produced, got, pushes, was_done)) = late {
        o.probe(if plan.late_end % 3 == 1 { "fault:late-peer-reset" } else { "fault:late-connection-loss" }, 1);
        let granted_then = plan.peer_rwnd.max(1) as u64
            + match plan.ack_mode {
                0 => pushes,
                1 => 0,
                _ => *batch_acked.borrow() as u64,
            };
        if !was_done && produced > got && pushes >= granted_then {
            o.probe("flow-closed-under-starved-writer", 1);
            if !done {
                o.violate("C13:starved-write-not-failed", format!("the bridge held {} bytes read from the local side that it could not send for lack of credit when {} (seq {q}); the pending write has failed but the bridge is still pending at quiescence; {desc}", produced - got, if plan.late_end % 3 == 1 { "the peer reset the flow" } else { "the connection was lost" }));
            }
        }
    }
    if !done {
        if l.read_err {
            o.violate("C13:read-error-not-propagated", format!("a read on the local side returned an error but the bridge is still pending at quiescence; {desc}"));
        }
        if l.write_err {
            o.violate("C13:write-error-not-propagated", format!("a write on the local side returned an error but the bridge is still pending at quiescence; {desc}"));
        }
        if l.flush_err {
            o.violate("C13:flush-error-not-propagated", format!("a flush on the local side returned an error but the bridge is still pending at quiescence; {desc}"));
        }
        if l.shutdown_err {
            o.violate("C13:shutdown-error-not-propagated", format!("shutdown of the local side returned an error but the bridge is still pending at quiescence; {desc}"));
        }
        // both directions ended cleanly and nothing is in the way: it must have completed
        let local_all_sent = l.eof_returned && got_from_a.len() == l.produced.len();
        let peer_all_written = peer_finished && l.written.len() == sent_by_peer.len();
        if local_all_sent && peer_all_written && !l.read_pending_forever {
            o.violate("C13:not-completed", format!("both directions have ended and all data was relayed but the bridge is still pending at quiescence; {desc}"));
        }
        // half-close propagation
        if l.eof_returned && finishes == 0 && !peer_reset && got_from_a.len() == l.produced.len() && a_reset == 0 {
            o.violate("C13:local-eof-not-propagated", format!("the local side reached end-of-stream, everything before it was sent, but no Finish followed; {desc}"));
        }
        if peer_finished && l.written.len() == sent_by_peer.len() && l.shutdown_calls == 0 {
            o.violate("C13:peer-finish-not-propagated", format!("the peer finished and all its data was written locally but the local side was never shut down; {desc}"));
        }
        // what the peer pushed must reach the local side, not sit in a buffering writer while the
        // bridge waits for something else: everything written is flushed before the bridge goes idle
        // a flush of the local writer that cannot complete holds up the peer-to-local direction
        // only: what the local side has ready (bytes, its end, an error) is still taken and relayed
        // as long as there is credit for it
        // the bridge is idle at quiescence: whatever the local side has ready (bytes, its end, an
        // error) must have been taken as long as there is credit for it - nothing but the local
        // side and the credit may be needed to move it
        if !l.flush_stuck && l.read_ready && !(l.read_err || l.write_err || l.flush_err || l.shutdown_err) && !peer_reset && a_reset == 0 && pushes_from_a < granted && s.task_end.borrow().is_none() {
            o.violate("C13:local-side-not-read", format!("the local side has output or its end ready and the bridge has credit ({pushes_from_a} of {granted} used), but the bridge is idle at quiescence without having read it; {desc}"));
        }
        if l.flush_stuck {
            o.probe("fault:local-flush-stuck", 1);
            if l.read_ready && !(l.read_err || l.write_err || l.flush_err || l.shutdown_err) && !peer_reset && a_reset == 0 && pushes_from_a < granted && s.task_end.borrow().is_none() {
                o.violate("C13:local-side-starved-by-pending-flush", format!("a flush of the local writer is pending for good, the local side has output or its end ready and the bridge has credit ({pushes_from_a} of {granted} used), but it is not read: the local-to-peer direction is not served while the other one waits; {desc}"));
            }
        }
        if !(l.read_err || l.write_err || l.flush_err || l.shutdown_err) && l.flushed < l.written.len() && !l.flush_stuck {
            o.violate("C13:unflushed-local-data", format!("the bridge is idle at quiescence with {} of {} bytes written to the local side never flushed (a buffering local writer would not have delivered them); {desc}", l.written.len() - l.flushed, l.written.len()));
        }
        o.probe("bridge-legitimately-pending", 1);
    }
    if s.sim.spurious_polls > 0 {
        o.probe("fault:spurious-poll", s.sim.spurious_polls);
    }
    if l.read_err {
        o.probe("fault:local-read-error", 1);
    }
    if l.write_err {
        o.probe("fault:local-write-error", 1);
    }
    if l.flush_err {
        o.probe("fault:local-flush-error", 1);
    }
    if l.shutdown_err {
        o.probe("fault:local-shutdown-error", 1);
    }
    if peer_reset {
        o.probe("fault:peer-reset", 1);
    }
    // coalescing: fewer Push frames than chunks consumed
    let chunks = plan.rs.iter().filter(|r| matches!(r, R::Chunk(_))).count() as u64;
    if pushes_from_a > 0 && pushes_from_a < chunks && got_from_a.len() == l.produced.len() {
        o.probe("bridge-coalesced-chunks", 1);
    }
    if plan.ack_mode != 0 && got_from_a.len() < l.produced.len() + 0 && pushes_from_a == granted {
        o.probe("bridge-credit-starved", 1);
    }
    o.nontrivial = !l.written.is_empty() && !got_from_a.is_empty();
    o.note = desc;
    o
}

// =================================================================== C16 (keepalive, virtual time)

#[derive(Serialize, Deserialize, Clone, Debug)]
pub struct C16Plan {
    /// keepalive interval in ms; 0 = disabled
    pub interval_ms: u64,
    /// requested keepalive timeout in ms (clamped up to the interval by the builder); 0 = none
    pub timeout_ms: u64,
    /// answer delay in ms for ping k; None = this and every later ping stay unanswered (the peer is dead)
    pub delays: Vec<Option<u64>>,
    /// delay for pings beyond the list; None = dead from then on
    pub tail: Option<u64>,
    pub link: LinkCfg,
    pub weights: [u32; NCLS],
    /// when the peer dies, the endpoint's outgoing direction stalls too (a full TCP send buffer
    /// towards a host that is gone): the sink stays Pending for ever, it does not fail
    #[serde(default)]
    pub stuck_sink: bool,
    /// the connection task is started this long after the multiplexor was built ("start-up" in the
    /// statement is the start of the task: nothing can be pinged or timed before)
    #[serde(default)]
    pub start_delay_ms: u64,
    /// call the builder's keepalive_timeout() before keepalive_interval(): a builder does not
    /// prescribe an order, the effective values must be the same
    #[serde(default)]
    pub timeout_first: bool,
    /// the builder first gets this (other) interval, then the timeout, then the final interval:
    /// a value that was set and later replaced must leave no trace (0 = not done)
    #[serde(default)]
    pub replaced_interval_ms: u64,
    /// the (live, ping-answering) peer opens this many streams at once while the application
    /// accepts only one: more than stream_buffer_size + 1 of them fill the accept backlog
    #[serde(default)]
    pub flood_connects: usize,
    /// a zero interval / timeout is written `OptionalDuration::from_secs(0)` instead of `NONE`
    /// (the conversions from `Duration` and from a string map 0 to NONE): it must mean "disabled"
    #[serde(default)]
    pub zero_via_from_secs: bool,
    /// the peer sends WebSocket Pings of its own every so many ms (0 = never), also after it has
    /// stopped answering ours: a Ping from the peer is not a Pong
    #[serde(default)]
    pub peer_pings_ms: u64,
    /// the endpoint's application queues this many datagrams at once (half an interval after the
    /// start) on a link that takes `link.latency_ms` per message and has room for `link.window`:
    /// the Sink is busy for many keepalive periods. A due Ping may wait for the messages the Sink
    /// has already taken, never for the queue behind them.
    #[serde(default)]
    pub backlog: usize,
    /// after queueing the backlog the application lets go of its multiplexor (the orderly wind-down
    /// starts) and, at that instant, the (live) peer stops taking messages for this many ms, then
    /// goes on: longer than T. With keepalive disabled no step of the wind-down may time out -
    /// everything queued arrives and a Close follows (0 = not done)
    #[serde(default)]
    pub drop_then_stall_ms: u64,
}

pub fn run_c16(plan: &C16Plan, sched: &Sched, record: bool) -> Outcome {
    block_on(run_c16_async(plan.clone(), sched.clone(), record))
}
async fn run_c16_async(plan: C16Plan, sched: Sched, record: bool) -> Outcome {
    use penguin_mux::config::Options;
    use penguin_mux::timing::OptionalDuration;
    let ms = Duration::from_millis;
    let (i_ms, t_req) = (plan.interval_ms, plan.timeout_ms);
    let zf = plan.zero_via_from_secs;
    let od = |x: u64| if x == 0 { if zf { OptionalDuration::from_secs(0) } else { OptionalDuration::NONE } } else { OptionalDuration::from(ms(x)) };
    // documented order: interval first, then timeout (so that T < I is clamped)
    let opts = if plan.replaced_interval_ms > 0 {
        Options::new().keepalive_interval(od(plan.replaced_interval_ms)).keepalive_timeout(od(t_req)).keepalive_interval(od(i_ms))
    } else if plan.timeout_first {
        Options::new().keepalive_timeout(od(t_req)).keepalive_interval(od(i_ms))
    } else {
        Options::new().keepalive_interval(od(i_ms)).keepalive_timeout(od(t_req))
    };
    let cfg = EpCfg::default();
    TASK_START_DELAY_MS.with(|c| c.set(plan.start_delay_ms));
    let mut s = setup(&cfg, opts, &plan.link, plan.weights, &sched, record, RxPolicy { ack_pushes: false, ack_req_connects: None }, Rc::new(RefCell::new(vec![])));
    TASK_START_DELAY_MS.with(|c| c.set(0));
    let mut mux0 = Some(s.mux);
    let d0 = ms(plan.start_delay_ms);
    s.link.lock().unwrap().auto_pong = [true, false];
    let t0 = s.link.lock().unwrap().t0;
    // pending operations that must observe the end of the connection
    let dg_end: Rc<RefCell<Option<String>>> = Default::default();
    let acc_end: Rc<RefCell<Option<String>>> = Default::default();
    let drop_mode = plan.drop_then_stall_ms > 0 && plan.backlog > 0;
    if !drop_mode {
        let (m, de) = (mux0.as_ref().expect("multiplexor").clone(), dg_end.clone());
        s.sim.spawn("dgrx", CLS_OTHER, async move {
            let r = m.get_datagram().await;
            *de.borrow_mut() = Some(format!("{:?}", r.map(|_| ())));
        });
        let (m, ae) = (mux0.as_ref().expect("multiplexor").clone(), acc_end.clone());
        s.sim.spawn("acceptor", CLS_OTHER, async move {
            let r = m.accept_stream_channel().await;
            *ae.borrow_mut() = Some(format!("{:?}", r.map(|_| ())));
        });
    }
    if plan.peer_pings_ms > 0 && plan.interval_ms > 0 {
        let (raw, every, n) = (s.raw.clone(), plan.peer_pings_ms, 200 * plan.interval_ms.max(1) / plan.peer_pings_ms.max(1) + 2);
        s.sim.spawn("peer-pinger", CLS_OTHER, async move {
            for _ in 0..n.min(5000) {
                tokio::time::sleep(Duration::from_millis(every)).await;
                raw.borrow_mut().send_msg(penguin_mux::ws::Message::Ping);
            }
        });
    }
    if plan.backlog > 0 {
        // in drop mode the only handle left is the one the burst task holds
        let (m, n, after) = (mux0.take().expect("multiplexor"), plan.backlog, plan.start_delay_ms + plan.interval_ms / 2);
        if !drop_mode {
            mux0 = Some(m.clone());
        }
        let (link, stall) = (s.link.clone(), if drop_mode { plan.drop_then_stall_ms } else { 0 });
        s.sim.spawn("burst", CLS_OTHER, async move {
            tokio::time::sleep(Duration::from_millis(after)).await;
            for k in 0..n {
                if m.send_datagram(penguin_mux::Datagram { flow_id: k as u32, target_host: bytes::Bytes::from_static(b"burst"), target_port: 9, data: bytes::Bytes::from(vec![k as u8; 24]) }).await.is_err() {
                    break;
                }
            }
            if stall > 0 {
                drop(m);
                link.lock().unwrap().set_hold(0, true);
                tokio::time::sleep(Duration::from_millis(stall)).await;
                let mut l = link.lock().unwrap();
                l.set_hold(0, false);
                l.wake_all();
            }
        });
    }
    if plan.flood_connects > 0 {
        let (raw, n) = (s.raw.clone(), plan.flood_connects);
        s.sim.spawn("flood", CLS_OTHER, async move {
            for k in 0..n {
                raw.borrow_mut().send(RFrame::Connect { id: 0x0f10_0000 + k as u32, rwnd: 4, port: k as u16, host: format!("f{k}").into_bytes() });
            }
        });
    }
    // the peer's pong policy
    let sp = s.sim.spawner();
    {
        let (raw, peer, plan2, link) = (s.raw.clone(), s.peer.clone(), plan.clone(), s.link.clone());
        s.sim.spawn("ponger", CLS_OTHER, async move {
            let mut seen = 0usize;
            loop {
                let npings = peer.borrow().got.iter().filter(|(_, w)| matches!(w, Wire::Ping)).count();
                while seen < npings {
                    let d = plan2.delays.get(seen).copied().unwrap_or(plan2.tail);
                    seen += 1;
                    match d {
                        None if plan2.peer_pings_ms > 0 => {
                            // the peer no longer answers our pings but keeps sending its own
                        }
                        None => {
                            // a dead peer: the transport returns nothing any more, not even Close
                            link.lock().unwrap().set_hold(1, true);
                            if plan2.stuck_sink {
                                link.lock().unwrap().set_hold(0, true);
                            }
                        }
                        Some(d) => {
                            let raw = raw.clone();
                            sp.spawn("pong", CLS_OTHER, async move {
                                tokio::time::sleep(Duration::from_millis(d)).await;
                                raw.borrow_mut().send_msg(penguin_mux::ws::Message::Pong);
                            });
                        }
                    }
                }
                if !wait_until(&peer, |p| p.got.iter().filter(|(_, w)| matches!(w, Wire::Ping)).count() > seen).await {
                    break;
                }
            }
        });
    }
    let t_ms = if t_req == 0 { 0 } else { t_req.max(i_ms) };
    // late pongs of a peer that later falls silent still count: the deadline moves with them
    let last_scripted_pong = plan.delays.iter().enumerate().filter_map(|(k, d)| d.map(|d| k as u64 * i_ms + d)).max().unwrap_or(0);
    let horizon = ms(if i_ms == 0 { 600_000 } else { (i_ms * 50).max(t_ms + 12 * i_ms).max(last_scripted_pong + t_ms + 4 * i_ms) } + 7) + d0;
    let end = s.sim.run(5_000_000, horizon).await;
    let mut o = Outcome { digest: s.sim.digest.0 ^ s.seq.now(), steps: s.sim.steps, decisions: s.sim.decisions.take().unwrap_or_default(), sim_ms: horizon.as_millis() as u64, ..Default::default() };
    if end != End::Quiescent {
        o.violate("HARNESS:step-budget", "no quiescence".into());
        return o;
    }
    let l = s.link.lock().unwrap();
    let pings: Vec<(u64, Duration)> = l.evs.iter().filter(|e| e.stage == Stage::Sent && e.from == 0 && matches!(&*e.w, Wire::Ping)).map(|e| (e.seq, e.t)).collect();
    let pongs: Vec<(u64, Duration)> = l.evs.iter().filter(|e| e.stage == Stage::Consumed && e.from == 1 && matches!(&*e.w, Wire::Pong)).map(|e| (e.seq, e.t)).collect();
    let te = s.task_end.borrow().clone();
    let desc = format!("I={i_ms}ms T(requested)={t_req}ms T(effective)={t_ms}ms task started {d0:?} after construction, builder order: {}, peer opens {} streams at once, peer pings every {} ms, delays={:?} tail={:?} pings={} pongs={} task_end={:?}", if plan.replaced_interval_ms > 0 { format!("interval {} ms, timeout, interval again", plan.replaced_interval_ms) } else if plan.timeout_first { "timeout first".to_string() } else { "interval first".to_string() }, plan.flood_connects, plan.peer_pings_ms, plan.delays, plan.tail, pings.len(), pongs.len(), te.as_ref().map(|t| (t.1.clone(), t.2)));
    o.note = desc.clone();
    // ---- disabled: no ping is sent and no timeout ever occurs
    if i_ms == 0 {
        if !pings.is_empty() {
            o.violate("C16:ping-although-disabled", format!("keepalive disabled but {} Ping(s) were sent; {desc}", pings.len()));
        }
        if drop_mode {
            // the application let go of its multiplexor with a backlog queued and the live peer took
            // nothing for longer than T: disabled means no step of the wind-down times out either
            let got = l.evs.iter().filter(|e| e.stage == Stage::Consumed && e.from == 0 && matches!(&*e.w, Wire::Frame(RFrame::Datagram { .. }))).count();
            let closed = l.evs.iter().any(|e| e.stage == Stage::Sent && e.from == 0 && matches!(&*e.w, Wire::Close));
            if got != plan.backlog || !closed {
                o.violate("C16:timeout-although-disabled:wind-down", format!("keepalive disabled (T = {t_req} ms still set), the application let go of its multiplexor with {} datagrams queued and the live peer took nothing for {} ms: {got} of them arrived, Close sent: {closed}; {desc}", plan.backlog, plan.drop_then_stall_ms));
            }
            if te.as_ref().is_some_and(|t| t.1.contains("KeepaliveTimeout")) {
                o.violate("C16:timeout-although-disabled:wind-down", format!("keepalive disabled but the winding-down task returned a keepalive timeout; {desc}"));
            }
            o.probe("keepalive-disabled-wind-down-with-a-stalled-live-peer", 1);
        } else if te.is_some() {
            o.violate("C16:ended-although-disabled", format!("keepalive disabled but the connection task returned; {desc}"));
        }
        o.probe("keepalive-disabled", 1);
        o.nontrivial = true;
        return o;
    }
    // ---- a ping is sent every I (exact virtual time)
    // (with a busy Sink: no earlier than its tick and no later than the messages the Sink had
    // already taken need: room for `window` messages plus the one on its way, `latency` ms each)
    let slack = if plan.backlog > 0 { ms((plan.link.window.min(8) as u64 + 2) * plan.link.latency_ms + 1) } else { Duration::ZERO };
    for (k, (_, t)) in pings.iter().enumerate() {
        let due = d0 + ms(i_ms * k as u64);
        if *t < due || *t > due + slack {
            o.violate("C16:ping-schedule", format!("ping {k} was sent at {t:?}, expected {due:?}{}; {desc}", if plan.backlog > 0 { format!(" (+ at most {slack:?} for what the busy Sink had already taken)") } else { String::new() }));
            break;
        }
    }
    if plan.backlog > 0 {
        let burst_ms = l.evs.iter().filter(|e| e.stage == Stage::Sent && e.from == 0 && matches!(&*e.w, Wire::Frame(RFrame::Datagram { .. }))).map(|e| e.t).max().unwrap_or_default().saturating_sub(d0 + ms(i_ms / 2));
        if burst_ms >= ms(2 * t_ms.max(i_ms)) {
            o.probe("sink-busy-for-more-than-two-timeouts", 1);
        }
    }
    let (ti, tt) = (ms(i_ms), ms(t_ms));
    // which pings were answered within T (by construction of the pong policy)
    let dead_from = (0..pings.len().max(plan.delays.len()) + 1).find(|k| plan.delays.get(*k).copied().unwrap_or(plan.tail).is_none());
    let max_delay = (0..pings.len()).filter_map(|k| plan.delays.get(k).copied().unwrap_or(plan.tail)).max().unwrap_or(0);
    let live_within_t = dead_from.is_none_or(|d| d >= pings.len() + 1) && (t_ms == 0 || max_delay <= t_ms);
    match &te {
        Some((tseq, res, tau)) => {
            if !res.contains("KeepaliveTimeout") {
                o.violate("C16:wrong-end", format!("the connection task returned {res}, not a keepalive timeout; {desc}"));
                return o;
            }
            if t_ms == 0 {
                o.violate("C16:timeout-without-timeout-configured", format!("no keepalive timeout is configured but the task returned KeepaliveTimeout; {desc}"));
                return o;
            }
            // the fatal tick = the instant the task decided; it is the last virtual instant at which a ping was due
            let tau = *tau;
            // last pong consumed before the decision, in event order
            // the decision precedes the Close the teardown sends; pongs consumed later (while winding
            // down, possibly at the same virtual instant) came too late for it
            let close_seq = l.evs.iter().find(|e| e.stage == Stage::Sent && e.from == 0 && matches!(&*e.w, Wire::Close)).map(|e| e.seq).unwrap_or(*tseq);
            // exactly: the decision is taken in the first poll of the connection task at the virtual
            // instant of the fatal tick (the interval is ready from that instant on)
            // (with a stuck sink later pings never leave, so the tick grid is used instead of the last ping)
            let fatal_tick = if plan.stuck_sink { d0 + ms((tau.saturating_sub(d0).as_millis() as u64 / i_ms) * i_ms) } else { pings.last().map(|p| p.1 + ti).filter(|t| *t <= tau).unwrap_or(tau) };
            let dseq = s.sim.conn0_polls.iter().find(|(_, at)| at.duration_since(t0) >= fatal_tick).map(|(q, _)| *q).unwrap_or(close_seq).min(close_seq);
            let last = pongs.iter().filter(|(q, _)| *q < dseq).map(|(_, t)| *t).filter(|t| *t <= tau).last().unwrap_or(d0);
            // the last pong that had *arrived* at the endpoint's socket before the decision, consumed or not:
            // an implementation that looks at its socket before judging sees it
            let last_arrived = l.evs.iter().filter(|e| e.stage == Stage::Delivered && e.from == 1 && matches!(&*e.w, Wire::Pong) && e.seq < dseq).map(|e| e.t).last().unwrap_or(d0);
            // a pong consumed at the very instant of the fatal tick but after it in event order does not count
            let decided_at = if plan.stuck_sink { fatal_tick } else { pings.last().map(|p| p.1 + ti).filter(|t| *t <= tau).unwrap_or(tau) };
            let age = decided_at.saturating_sub(last);
            o.probe("keepalive-timeout-fired", 1);
            if live_within_t {
                // S2: every ping was answered within T, yet the endpoint timed out
                if plan.flood_connects > cfg.stream_buf + 1 {
                    o.violate("C16:timeout-live-peer:task-blocked-on-accept-backlog", format!("every ping was answered within T, but the connection task was blocked handing the {}th unaccepted stream to a full accept backlog (stream_buffer_size {}) and did not look at the pongs; {desc}", cfg.stream_buf + 2, cfg.stream_buf));
                } else if decided_at.saturating_sub(last_arrived) > tt {
                    o.violate("C16:timeout-live-peer:last-pong-older-than-T", format!("every ping was answered within T but the gap between pongs exceeded T: last pong at {last:?}, timeout decided at {decided_at:?}; {desc}"));
                } else {
                    o.violate("C16:timeout-live-peer:last-pong-within-T", format!("every ping was answered within T and the last pong to arrive ({last_arrived:?}; last one processed: {last:?}) was younger than T at the decision ({decided_at:?}), yet the endpoint timed out; {desc}"));
                }
            } else {
                // S1: no earlier than T and no later than T + I after the last pong (or start-up)
                if age < tt {
                    o.violate("C16:timeout-too-early", format!("timeout decided at {decided_at:?}, only {age:?} after the last pong ({last:?}); T = {tt:?}; {desc}"));
                }
                if age > tt + ti {
                    o.violate("C16:timeout-too-late", format!("timeout decided at {decided_at:?}, {age:?} after the last pong ({last:?}); T + I = {:?}; {desc}", tt + ti));
                }
            }
            // ---- and everything pending observes the end (C08's ledger)
            if dg_end.borrow().is_none() {
                let m = format!("get_datagram is still pending after the keepalive timeout; {desc}");
                o.violate("C16:pending-after-timeout", m.clone());
                o.violate("C08:pending:get_datagram", m);
            }
            if acc_end.borrow().is_none() {
                let m = format!("accept_stream_channel is still pending after the keepalive timeout; {desc}");
                o.violate("C16:pending-after-timeout", m.clone());
                o.violate("C08:pending:accept", m);
            }
        }
        None => {
            // a dead peer must be detected by the horizon
            if let Some(d) = dead_from {
                if d < pings.len() && t_ms > 0 {
                    o.violate("C16:dead-peer-undetected", format!("the peer stopped answering from ping {d} on but no keepalive timeout occurred before the horizon; {desc}"));
                }
            }
            // a peer answering later than T is not live either: the timeout must fire (S1 upper bound)
            if dead_from.is_none() && t_ms > 0 && max_delay > t_ms + i_ms {
                o.violate("C16:late-peer-undetected", format!("pings were answered only after more than T + I but no timeout occurred; {desc}"));
            }
            if pings.len() < 40 && !(plan.stuck_sink && dead_from.is_some()) {
                o.violate("C16:ping-schedule", format!("only {} pings were sent before the horizon; {desc}", pings.len()));
            }
            if live_within_t {
                o.probe("live-peer-never-timed-out", 1);
            }
        }
    }
    if t_req > 0 && t_req < i_ms {
        o.probe("timeout-clamped-to-interval", 1);
    }
    if t_req == 0 {
        o.probe("pings-without-timeout", 1);
    }
    o.nontrivial = pings.len() >= 3;
    o
}

// =================================================================== C07 (raw peer rejecting proposals)

#[derive(Serialize, Deserialize, Clone, Debug)]
pub struct C07RawPlan {
    pub ep: EpCfg,
    pub link: LinkCfg,
    pub weights: [u32; NCLS],
    /// the peer answers the first `reject` Connect frames with Reset, later ones with Acknowledge(peer_rwnd)
    pub reject: usize,
    pub peer_rwnd: u32,
    /// concurrent open calls
    pub opens: usize,
    pub yields: usize,
}
pub fn run_c07_raw(plan: &C07RawPlan, sched: &Sched, record: bool) -> Outcome {
    block_on(run_c07_raw_async(plan.clone(), sched.clone(), record))
}
async fn run_c07_raw_async(plan: C07RawPlan, sched: Sched, record: bool) -> Outcome {
    let mut s = setup(&plan.ep, plan.ep.options(), &plan.link, plan.weights, &sched, record, RxPolicy { ack_pushes: false, ack_req_connects: None }, Rc::new(RefCell::new(vec![])));
    let results: Rc<RefCell<Vec<(usize, String)>>> = Default::default();
    let held: Rc<RefCell<Vec<penguin_mux::MuxStream>>> = Default::default();
    for k in 0..plan.opens.max(1) {
        let (m, res, held) = (s.mux.clone(), results.clone(), held.clone());
        s.sim.spawn(&format!("open{k}"), CLS_OTHER, async move {
            let host = format!("o{k}");
            let r = m.new_stream_channel(host.as_bytes(), k as u16).await;
            res.borrow_mut().push((k, match r {
                Ok(st) => {
                    held.borrow_mut().push(st);
                    "Ok".into()
                }
                Err(e) => format!("{e:?}"),
            }));
        });
    }
    // the peer: answers Connects in arrival order
    let decisions: Rc<RefCell<Vec<(u32, Vec<u8>, bool)>>> = Default::default();
    {
        let (raw, peer, plan2, dec) = (s.raw.clone(), s.peer.clone(), plan.clone(), decisions.clone());
        s.sim.spawn("peer-tx", CLS_OTHER, async move {
            let mut seen = 0usize;
            loop {
                if !wait_until(&peer, |p| p.ep_connects.len() > seen).await {
                    break;
                }
                let (id, host) = peer.borrow().ep_connects[seen].clone();
                seen += 1;
                sim_yields(plan2.yields).await;
                let reject = seen <= plan2.reject;
                dec.borrow_mut().push((id, host, reject));
                if reject {
                    raw.borrow_mut().send(RFrame::Reset { id });
                } else {
                    raw.borrow_mut().send(RFrame::Ack { id, n: plan2.peer_rwnd.max(1) });
                }
            }
        });
    }
    let end = s.sim.run(1_000_000, crate::duo::HORIZON).await;
    let mut o = Outcome { digest: s.sim.digest.0 ^ s.seq.now(), steps: s.sim.steps, decisions: s.sim.decisions.take().unwrap_or_default(), ..Default::default() };
    if end != End::Quiescent {
        o.violate("HARNESS:step-budget", "no quiescence".into());
        return o;
    }
    let dec = decisions.borrow();
    let res = results.borrow();
    let retries = plan.ep.retries.max(1);
    let desc = format!("max_flow_id_retries={retries}, peer rejects the first {} Connects, {} concurrent opens: Connects (id, host, rejected) = {:?}, results = {:?}", plan.reject, plan.opens, dec.iter().map(|d| (d.0, String::from_utf8_lossy(&d.1).to_string(), d.2)).collect::<Vec<_>>(), *res);
    o.note = desc.clone();
    if s.task_end.borrow().is_some() {
        o.violate("C07:connection-ended", format!("the connection task returned; {desc}"));
    }
    // ids: never 0, never an id that is live or pending at the sender
    let mut in_use: Vec<u32> = vec![];
    let mut pending: Vec<u32> = vec![];
    for (id, _, rejected) in dec.iter() {
        if *id == 0 {
            o.violate("C07:connect-id-zero", format!("the endpoint proposed flow id 0; {desc}"));
        }
        // at the time of this Connect: ids of established streams are live; ids of earlier Connects that
        // the peer has not answered yet were pending (we answer in order, so all earlier ones are answered)
        if in_use.contains(id) || pending.contains(id) {
            o.violate("C07:connect-id-in-use", format!("the endpoint proposed flow id {id:x} which it already uses; {desc}"));
        }
        if !*rejected {
            in_use.push(*id);
        }
    }
    let _ = &mut pending;
    for k in 0..plan.opens.max(1) {
        let host = format!("o{k}").into_bytes();
        let mine: Vec<&(u32, Vec<u8>, bool)> = dec.iter().filter(|d| d.1 == host).collect();
        let r = res.iter().find(|x| x.0 == k).map(|x| x.1.as_str());
        let rejected = mine.iter().filter(|d| d.2).count();
        let accepted = mine.iter().filter(|d| !d.2).count();
        if mine.len() > retries {
            o.violate("C07:retry-count", format!("open {k}: {} Connect frames for one request; {desc}", mine.len()));
        }
        match r {
            Some("Ok") => {
                if accepted != 1 {
                    o.violate("C07:open-ok-without-ack", format!("open {k} succeeded but {accepted} of its Connects were acknowledged; {desc}"));
                }
                if rejected > 0 {
                    o.probe("open-succeeded-after-retry", 1);
                }
            }
            Some(e) if e.contains("FlowIdRejected") => {
                o.probe("flow-id-rejected", 1);
                if rejected != retries || accepted != 0 {
                    o.violate("C07:retry-count", format!("open {k} failed with FlowIdRejected after {rejected} rejected Connects (and {accepted} acknowledged), max_flow_id_retries = {retries}; {desc}"));
                }
            }
            Some(e) => o.violate("C07:open-error", format!("open {k} failed with {e}; {desc}")),
            None => o.violate("C07:open-unresolved", format!("open {k} still pending at quiescence; {desc}")),
        }
    }
    o.nontrivial = dec.iter().any(|d| d.2);
    o
}

// =================================================================== C05 against a third-party peer

/// A conforming peer that is not this implementation: it may send zero-length Push frames
/// (PROTOCOL.md does not forbid them; penguin itself no longer sends them).
#[derive(Serialize, Deserialize, Clone, Debug)]
pub struct C05RawPlan {
    pub ep: EpCfg,
    pub link: LinkCfg,
    pub weights: [u32; NCLS],
    /// payload sizes of the Push frames the peer sends on its stream (0 = empty Push)
    pub pushes: Vec<usize>,
    /// yields between frames
    pub gaps: usize,
    /// 0 = Finish afterwards, 1 = Reset afterwards, 2 = nothing (stream stays open)
    pub end: u8,
    /// read buffer of the application
    pub buf: usize,
    /// use fill_buf/consume instead of read
    pub fill: bool,
}
pub fn run_c05_raw(plan: &C05RawPlan, sched: &Sched, record: bool) -> Outcome {
    block_on(run_c05_raw_async(plan.clone(), sched.clone(), record))
}
async fn run_c05_raw_async(plan: C05RawPlan, sched: Sched, record: bool) -> Outcome {
    use tokio::io::{AsyncBufReadExt, AsyncReadExt};
    let mut s = setup(&plan.ep, plan.ep.options(), &plan.link, plan.weights, &sched, record, RxPolicy { ack_pushes: false, ack_req_connects: None }, Rc::new(RefCell::new(vec![])));
    const ID: u32 = 0x0c05_0001;
    // (bytes read, eof seen at seq, error)
    let got: Rc<RefCell<(Vec<u8>, Option<u64>, Option<String>)>> = Default::default();
    let held: Rc<RefCell<Vec<penguin_mux::MuxStream>>> = Default::default();
    {
        let (m, got, held, seq, plan2) = (s.mux.clone(), got.clone(), held.clone(), s.seq.clone(), plan.clone());
        s.sim.spawn("app", CLS_READER, async move {
            let Ok(mut st) = m.accept_stream_channel().await else { return };
            let mut b = vec![0u8; plan2.buf.max(1)];
            loop {
                let n = if plan2.fill {
                    match st.fill_buf().await {
                        Ok(x) => {
                            let k = x.len().min(plan2.buf.max(1));
                            got.borrow_mut().0.extend(&x[..k]);
                            st.consume(k);
                            k
                        }
                        Err(e) => {
                            got.borrow_mut().2 = Some(e.to_string());
                            break;
                        }
                    }
                } else {
                    match st.read(&mut b).await {
                        Ok(k) => {
                            got.borrow_mut().0.extend(&b[..k]);
                            k
                        }
                        Err(e) => {
                            got.borrow_mut().2 = Some(e.to_string());
                            break;
                        }
                    }
                };
                if n == 0 {
                    got.borrow_mut().1 = Some(seq.tick());
                    break;
                }
            }
            held.borrow_mut().push(st);
        });
    }
    let sent: Rc<RefCell<Vec<u8>>> = Default::default();
    let end_seq: Rc<RefCell<Option<u64>>> = Default::default();
    {
        let (raw, plan2, sent, end_seq, seq) = (s.raw.clone(), plan.clone(), sent.clone(), end_seq.clone(), s.seq.clone());
        s.sim.spawn("peer-tx", CLS_OTHER, async move {
            raw.borrow_mut().send(RFrame::Connect { id: ID, rwnd: 1000, port: 5, host: b"third-party".to_vec() });
            let mut off = 0u64;
            for n in &plan2.pushes {
                sim_yields(plan2.gaps).await;
                let data: Vec<u8> = (0..*n as u64).map(|j| pbyte(77, 0, off + j)).collect();
                off += *n as u64;
                sent.borrow_mut().extend(&data);
                raw.borrow_mut().send(RFrame::Push { id: ID, data });
            }
            sim_yields(plan2.gaps).await;
            match plan2.end {
                0 => {
                    *end_seq.borrow_mut() = Some(seq.tick());
                    raw.borrow_mut().send(RFrame::Finish { id: ID });
                }
                1 => {
                    *end_seq.borrow_mut() = Some(seq.tick());
                    raw.borrow_mut().send(RFrame::Reset { id: ID });
                }
                _ => {}
            }
        });
    }
    let end = s.sim.run(1_000_000, crate::duo::HORIZON).await;
    let mut o = Outcome { digest: s.sim.digest.0 ^ s.seq.now(), steps: s.sim.steps, decisions: s.sim.decisions.take().unwrap_or_default(), ..Default::default() };
    if end != End::Quiescent {
        o.violate("HARNESS:step-budget", "no quiescence".into());
        return o;
    }
    let g = got.borrow();
    let sent = sent.borrow();
    let desc = format!("peer sent Push sizes {:?} then {} (rwnd of the endpoint {}); the application read {} of {} bytes, end-of-stream: {:?}, error: {:?}, task: {:?}", plan.pushes, ["Finish", "Reset", "nothing"][(plan.end % 3) as usize], plan.ep.rwnd, g.0.len(), sent.len(), g.1, g.2, s.task_end.borrow().as_ref().map(|t| &t.1));
    o.note = desc.clone();
    o.nontrivial = plan.pushes.iter().any(|n| *n == 0) && !sent.is_empty();
    if plan.pushes.iter().any(|n| *n == 0) {
        o.probe("empty-push-from-third-party-peer", 1);
    }
    if s.task_end.borrow().is_some() {
        o.violate("C05:connection-ended", format!("the connection task returned although every frame was well-formed; {desc}"));
        return o;
    }
    if g.0[..] != sent[..g.0.len().min(sent.len())] || g.0.len() > sent.len() {
        o.violate("C02:prefix", format!("the bytes read are not a prefix of the bytes the peer pushed; {desc}"));
    }
    match (plan.end % 3, g.1) {
        (2, Some(_)) => o.violate("C05:eof-unjustified", format!("the application read end-of-stream although the peer neither finished nor reset the stream and the connection is alive; {desc}")),
        (0, Some(_)) if g.0.len() < sent.len() => o.violate("C05:eof-before-data", format!("end-of-stream before every byte the peer had pushed before its Finish was returned; {desc}")),
        (0, Some(e)) if end_seq.borrow().is_some_and(|f| e < f) => o.violate("C05:eof-unjustified", format!("end-of-stream (seq {e}) before the peer sent its Finish; {desc}")),
        (1, Some(e)) if end_seq.borrow().is_some_and(|f| e < f) => o.violate("C05:eof-unjustified", format!("end-of-stream (seq {e}) before the peer sent its Reset; {desc}")),
        _ => {}
    }
    o
}

//! Reference frame codec written from PROTOCOL.md only.
#[derive(Clone, Debug, PartialEq, Eq)]
pub enum RFrame {
    Connect { id: u32, rwnd: u32, port: u16, host: Vec<u8> },
    Ack { id: u32, n: u32 },
    Reset { id: u32 },
    Finish { id: u32 },
    Push { id: u32, data: Vec<u8> },
    Bind { id: u32, ty: u8, port: u16, host: Vec<u8> },
    Datagram { id: u32, port: u16, host: Vec<u8>, data: Vec<u8> },
}
impl RFrame {
    pub fn id(&self) -> u32 { match self { RFrame::Connect { id, .. } | RFrame::Ack { id, .. } | RFrame::Reset { id } | RFrame::Finish { id } | RFrame::Push { id, .. } | RFrame::Bind { id, .. } | RFrame::Datagram { id, .. } => *id } }
    pub fn encode(&self) -> Vec<u8> {
        let mut v = vec![];
        let op = match self { RFrame::Connect { .. } => 0u8, RFrame::Ack { .. } => 1, RFrame::Reset { .. } => 2, RFrame::Finish { .. } => 3, RFrame::Push { .. } => 4, RFrame::Bind { .. } => 5, RFrame::Datagram { .. } => 6 };
        v.push(0x70 | op);
        v.extend(self.id().to_be_bytes());
        match self {
            RFrame::Connect { rwnd, port, host, .. } => { v.extend(rwnd.to_be_bytes()); v.extend(port.to_be_bytes()); v.extend(host); }
            RFrame::Ack { n, .. } => v.extend(n.to_be_bytes()),
            RFrame::Reset { .. } | RFrame::Finish { .. } => {}
            RFrame::Push { data, .. } => v.extend(data),
            RFrame::Bind { ty, port, host, .. } => { v.push(*ty); v.extend(port.to_be_bytes()); v.extend(host); }
            RFrame::Datagram { port, host, data, .. } => { v.push(host.len() as u8); v.extend(port.to_be_bytes()); v.extend(host); v.extend(data); }
        }
        v
    }
    pub fn decode(b: &[u8]) -> Option<RFrame> {
        if b.len() < 5 { return None; }
        let ver = b[0] >> 4; if ver != 7 && ver != 0 { return None; }
        let id = u32::from_be_bytes([b[1], b[2], b[3], b[4]]);
        let p = &b[5..];
        Some(match b[0] & 0xf {
            0 => { if p.len() < 6 { return None; } RFrame::Connect { id, rwnd: u32::from_be_bytes([p[0], p[1], p[2], p[3]]), port: u16::from_be_bytes([p[4], p[5]]), host: p[6..].to_vec() } }
            1 => { if p.len() < 4 { return None; } RFrame::Ack { id, n: u32::from_be_bytes([p[0], p[1], p[2], p[3]]) } }
            2 => RFrame::Reset { id },
            3 => RFrame::Finish { id },
            4 => RFrame::Push { id, data: p.to_vec() },
            5 => { if p.len() < 3 || (p[0] != 1 && p[0] != 3) { return None; } RFrame::Bind { id, ty: p[0], port: u16::from_be_bytes([p[1], p[2]]), host: p[3..].to_vec() } }
            6 => { if p.len() < 3 { return None; } let hl = p[0] as usize; if p.len() < 3 + hl { return None; } RFrame::Datagram { id, port: u16::from_be_bytes([p[1], p[2]]), host: p[3..3 + hl].to_vec(), data: p[3 + hl..].to_vec() } }
            _ => return None,
        })
    }
}

//! Property families on the two-real-endpoints harness (C02-C08, C11, C15).

use crate::duo::*;
use crate::plangen::*;
use crate::oracle::*;
use serde_json::Value;
use simcore::{Check, Family, Outcome, Prng, Sched, Tier};

type GenFn = fn(&mut Prng, u64, Tier) -> Plan;
type ExtraFn = fn(&DuoRun, &WireModel, &EndInfo, &mut Outcome);
type NontrivFn = fn(&DuoRun, &WireModel, &EndInfo) -> bool;

pub struct DuoFamily {
    pub name: &'static str,
    pub quick: u64,
    pub thorough: u64,
    pub generate: GenFn,
    pub cfg: OracleCfg,
    pub extra: Option<ExtraFn>,
    pub nontrivial: NontrivFn,
    pub rule: &'static str,
    pub exhaustive_thorough: bool,
    /// > 1: crash-point sweep, `index % stride` selects the fault's trigger step
    pub stride: u64,
}
impl Family for DuoFamily {
    fn name(&self) -> &'static str {
        self.name
    }
    fn runs(&self, tier: Tier) -> u64 {
        if tier == Tier::Quick { self.quick } else { self.thorough }
    }
    fn generate(&self, batch_seed: u64, index: u64, tier: Tier) -> (Value, u64) {
        // sweep families keep plan and schedule fixed over a group of `stride` indices
        let group = if self.stride > 1 { index / self.stride } else { index };
        let seed = simcore::prng::mix(batch_seed, self.name, group);
        let mut r = Prng::new(seed);
        (serde_json::to_value((self.generate)(&mut r, index, tier)).expect("plan"), seed)
    }
    fn exec(&self, plan: &Value, sched: &Sched, record: bool) -> Outcome {
        let Ok(plan) = serde_json::from_value::<Plan>(plan.clone()) else { return Outcome::default() };
        let run = crate::duo::run(&plan, sched, record);
        let mut o = outcome_base(&run);
        let (wm, ei) = judge(&run, &self.cfg, &mut o);
        judge_leaks(&run, &wm, &ei, &mut o);
        if let Some(f) = self.extra {
            f(&run, &wm, &ei, &mut o);
        }
        o.nontrivial = (self.nontrivial)(&run, &wm, &ei);
        common_probes(&run, &wm, &mut o);
        if let Some(t) = &run.trace {
            for l in t {
                eprintln!("{l}");
            }
            let l = run.link.lock().unwrap();
            for e in &l.evs {
                eprintln!("  #{:<5} {:?} from {} {}{}", e.seq, e.stage, e.from, e.w.short(), if e.injected { " (injected)" } else { "" });
            }
        }
        o.note = note(&run, &wm);
        o
    }
    fn rule(&self) -> &'static str {
        self.rule
    }
    fn exhaustive(&self, tier: Tier) -> bool {
        tier == Tier::Thorough && self.exhaustive_thorough
    }
}

fn note(r: &DuoRun, wm: &WireModel) -> String {
    let led = r.led.borrow();
    format!(
        "steps={} push={} ack={} reset={} streams={} opened={} task_end={:?} fired={:?}",
        r.steps,
        wm.n_push,
        wm.n_ack,
        wm.n_reset,
        led.streams.len(),
        led.streams.iter().filter(|s| matches!(s.open_ret, Some((_, Ok(()))))).count(),
        led.task_end.iter().map(|t| t.as_ref().map(|x| x.1.clone())).collect::<Vec<_>>(),
        r.fired.iter().map(|f| f.0.clone()).collect::<Vec<_>>()
    )
}

fn common_probes(r: &DuoRun, wm: &WireModel, o: &mut Outcome) {
    let l = r.link.lock().unwrap();
    o.probe("link-backpressure", (l.backpressure_hits > 0) as u64);
    o.probe("ack-crossing-push", (wm.ack_crossed_push > 0) as u64);
    let mut exhausted = 0;
    let mut multi = 0;
    for i in &wm.insts {
        for x in 0..2 {
            if i.win[1 - x].is_some_and(|w| i.max_outstanding[x] == w as u64) {
                exhausted = 1;
            }
        }
    }
    if wm.insts.iter().filter(|i| i.est_sent.is_some()).count() > 1 {
        multi = 1;
    }
    o.probe("window-exactly-exhausted", exhausted);
    o.probe("multiple-streams", multi);
    o.probe("reset-on-wire", (wm.n_reset > 0) as u64);
    let led = r.led.borrow();
    let mut parked = 0;
    for s in &led.streams {
        for sd in &s.sides {
            // a write whose call spanned other events = the writer was parked
            if sd.writes.iter().any(|w| w.ret.is_some_and(|t| t > w.inv + 2)) {
                parked = 1;
            }
        }
    }
    o.probe("writer-parked-on-credit", parked);
}

fn nt_data(_r: &DuoRun, wm: &WireModel, _e: &EndInfo) -> bool {
    wm.n_push >= 4 && wm.n_ack >= 2
}

// ------------------------------------------------------------------ C02

fn gen_c02(r: &mut Prng, _i: u64, _t: Tier) -> Plan {
    let mut p = base_plan(r);
    let n = 1 + r.below(4);
    for _ in 0..n {
        p.streams.push(gen_stream(r, &CLEAN));
    }
    p
}
/// readers that take every frame in several small pieces and pause in between, writers that
/// send bursts longer than any window
const PIECEMEAL: Prof = Prof { max_writes: 40, max_size: 48, p_empty: 20, p_vectored: 250, p_flush: 30, p_yield: 350, p_shutdown: 1000, p_write_after_shutdown: 0, p_drop_mid: 0, p_read_eof: 1000, p_fill: 500, p_reader_absent: 0, hold: 0, max_buf: 3 };
fn gen_c02_piecemeal(r: &mut Prng, _i: u64, _t: Tier) -> Plan {
    let mut p = base_plan(r);
    for _ in 0..(1 + r.below(3)) {
        let mut s = gen_stream(r, &PIECEMEAL);
        for sd in &mut s.sides {
            // a reader that dawdles before it starts
            if r.chance(1, 2) {
                sd.r.insert(0, ROp::Yield(5 + r.below(40)));
            }
        }
        p.streams.push(s);
    }
    p
}
pub fn c02() -> Check {
    Check {
        property: "C02",
        engine: "muxsim",
        level: "exploration",
        families: vec![Box::new(DuoFamily {
            name: "streams",
            quick: 300_000,
            thorough: 3_000_000,
            generate: gen_c02,
            cfg: OracleCfg::default(),
            extra: None,
            nontrivial: nt_data,
            rule: "1-4 streams opened from either side, per direction a writer (plain/vectored writes incl. empty slices, bursts beyond the window, flush, shutdown) and a reader (read with buffers 1..64 or fill_buf+partial consume); (rwnd, threshold) drawn independently per side from {1,2,3,4,8,16}^2, link window from {1,2,8,inf}, optional latency, schedule weights per run. Non-trivial: at least 4 Push and 2 Acknowledge frames crossed the wire.",
            exhaustive_thorough: false,
            stride: 1,
        }), fam("piecemeal-readers", 100_000, 1_000_000, gen_c02_piecemeal, OracleCfg::default(), None, nt_data, "1-3 streams whose readers take every frame in pieces of 1-3 bytes (read or fill_buf + partial consume), pause between pieces and often start late, while writers send bursts of up to 40 writes, longer than any window, and shut down; the reader reads to end-of-stream. Same oracles as `streams`."), fam("id-reuse-with-leftovers", 40000, 400_000, gen_c06_early_reuse, OracleCfg::default(), Some(x_early_reuse_space_only), nt_c06, "the C06 `early-reuse` workload, judged by the byte-stream oracles: the stream that re-uses the flow id of an aborted stream must deliver exactly what its writers wrote, whatever the application still does with the object of the aborted stream.")],
        required_probes: vec!["writer-parked-on-credit", "window-exactly-exhausted", "multiple-streams", "link-backpressure"],
        assumptions: vec!["the WebSocket below the multiplexor is reliable and ordered per direction (PROTOCOL.md); the in-memory link implements tokio-tungstenite's observable contract", "one poll of a task is atomic (single-threaded scheduling; finer interleavings are C12's)"],
        real: vec!["penguin_mux::Multiplexor", "penguin_mux::TaskData::into_task (receive/send/ping/dropped-handle loops, wind_down)", "penguin_mux::MuxStream (AsyncRead, AsyncBufRead, AsyncWrite incl. vectored)", "penguin_mux::frame codec", "cow-bytes", "tokio::sync channels", "tokio paused timer wheel"],
        stub: vec!["WebSocket transport (SimWs in-memory link)", "applications (scripted actors)", "flow-id RNG (scripted)", "task scheduler (seeded executor)"],
    }
}


fn duo_check(property: &'static str, level: &'static str, families: Vec<Box<dyn Family>>, required_probes: Vec<&'static str>) -> Check {
    let c = c02();
    Check { property, engine: "muxsim", level, families, required_probes, assumptions: c.assumptions, real: c.real, stub: c.stub }
}
fn fam(name: &'static str, quick: u64, thorough: u64, generate: GenFn, cfg: OracleCfg, extra: Option<ExtraFn>, nontrivial: NontrivFn, rule: &'static str) -> Box<dyn Family> {
    Box::new(DuoFamily { name, quick, thorough, generate, cfg, extra, nontrivial, rule, exhaustive_thorough: false, stride: 1 })
}

// ------------------------------------------------------------------ C03

const HOLDING: Prof = Prof { hold: 1000, p_yield: 350, max_writes: 30, ..CLEAN };
fn gen_c03(r: &mut Prng, _i: u64, _t: Tier) -> Plan {
    let mut p = base_plan(r);
    // small windows make writers race with incoming acknowledgements
    if r.chance(1, 2) {
        for e in &mut p.eps {
            e.rwnd = *r.pick(&[1u32, 2, 3]);
        }
    }
    let n = 1 + r.below(3);
    for _ in 0..n {
        let mut s = gen_stream(r, &HOLDING);
        // slow readers: acknowledgements must wait for consumption
        if r.chance(1, 3) {
            let side = r.below(2);
            let mut v = vec![];
            for _ in 0..(2 + r.below(6)) {
                v.push(ROp::Yield(3 + r.below(12)));
                v.push(ROp::Read { buf: 1 + r.below(8), times: 1 + r.below(3) });
            }
            v.push(ROp::ReadEof { buf: 1 + r.below(32) });
            s.sides[side].r = v;
        }
        p.streams.push(s);
    }
    p
}
fn nt_c03(_r: &DuoRun, wm: &WireModel, _e: &EndInfo) -> bool {
    wm.n_ack >= 2 && wm.insts.iter().any(|i| (0..2).any(|x| i.win[1 - x].is_some_and(|w| i.max_outstanding[x] == w as u64)))
}
pub fn c03() -> Check {
    duo_check(
        "C03",
        "exploration",
        vec![fam("credit", 300000, 3_000_000, gen_c03, OracleCfg::default(), None, nt_c03, "as C02, but stream objects are kept alive until the transfer phase is quiescent (every Reset seen is unexplained by construction), small windows and slow readers so that writers race with acknowledgements. Black-box accountant from the wire monitor: outstanding Push <= advertised window at every Push; one non-empty write = one Push; Acknowledge totals never exceed frames consumed / frames the application started consuming (+1); no Reset of a live established flow. Non-trivial: some sender exhausted the advertised window exactly and >=2 Acknowledge frames crossed the wire."),
            fam("id-reuse-with-leftovers", 40000, 400_000, gen_c06_early_reuse, OracleCfg::default(), Some(x_early_reuse_space_only), nt_c06, "the C06 `early-reuse` workload (one side aborts, the id is re-used at once, the other application lets go of its old object later and may read the frames still buffered in it only then), judged by the credit accountant: no frame of the dead flow may be acknowledged into the new stream (no more Push frames on the wire than the window advertised for the new stream, no Reset of a stream both applications hold).")],
        vec!["writer-parked-on-credit", "window-exactly-exhausted", "ack-crossing-push"],
    )
}

// ------------------------------------------------------------------ C04

const BURST: Prof = Prof { max_writes: 40, max_size: 24, p_yield: 100, max_buf: 16, ..CLEAN };
fn pair_of(i: u64) -> (u32, u32) {
    (WINDOWS[(i % 6) as usize], WINDOWS[((i / 6) % 6) as usize])
}
fn gen_c04(r: &mut Prng, i: u64, _t: Tier) -> Plan {
    let mut p = base_plan(r);
    // deterministic sweep of all 36 x 36 (rwnd, threshold) pairs by run index
    let (ra, ta) = pair_of(i);
    let (rb, tb) = pair_of(i / 36);
    p.eps[0].rwnd = ra;
    p.eps[0].threshold = ta;
    p.eps[1].rwnd = rb;
    p.eps[1].threshold = tb;
    for e in &mut p.eps {
        e.stream_buf = *r.pick(&[1usize, 2, 16]);
    }
    // a slow (but never absent) acceptor
    p.accept_pace = *r.pick(&[0usize, 0, 3, 12]);
    // sometimes two tasks of an application accept concurrently
    for e in 0..2 {
        if r.chance(1, 5) {
            p.extra_acceptors[e] = 1;
        }
    }
    let n = 1 + r.below(3);
    for _ in 0..n {
        let mut s = gen_stream(r, &BURST);
        // bursts longer than any window
        for side in 0..2 {
            if r.chance(2, 3) {
                let extra = 17 + r.below(30);
                // every size pattern, zero-length writes included
                let mut w: Vec<WOp> = (0..extra).map(|_| if r.chance(1, 12) { WOp::Write(0) } else { WOp::Write(1 + r.below(24)) }).collect();
                w.push(WOp::Shutdown);
                s.sides[side].w = w;
            }
        }
        p.streams.push(s);
    }
    p
}
/// third family: the premise of C04 is about streams only -- the receiving application reads its
/// streams and accepts new ones but never picks up datagrams, while the peer sends more datagrams
/// than the datagram buffer holds
fn gen_c04_unread_dgrams(r: &mut Prng, i: u64, t: Tier) -> Plan {
    let mut p = gen_c04(r, i, t);
    for e in &mut p.eps {
        e.dgram_buf = 1 + r.below(4);
    }
    // a stream that is opened only after the flood
    let mut late = gen_stream(r, &BURST);
    late.delay = 30 + r.below(60);
    p.streams.push(late);
    for from in 0..2 {
        if from == 1 && r.chance(1, 2) {
            continue;
        }
        let n = p.eps[1 - from].dgram_buf + 1 + r.below(6);
        let items = (0..n).map(|_| DgItem { flow: r.next() as u32, hlen: r.below(10), port: r.next() as u16, len: 4 + r.below(20), yields: r.below(3) }).collect();
        p.dg_tx.push(DgTx { from, items });
    }
    p
}
fn x_c04_unread(r: &DuoRun, _wm: &WireModel, ei: &EndInfo, o: &mut Outcome) {
    if ei.any_fault {
        return;
    }
    let led = r.led.borrow();
    for from in 0..2 {
        let acc = led.dg.sent[from].iter().filter(|x| x.2.is_ok()).count();
        if acc > r.plan.eps[1 - from].dgram_buf {
            o.probe("datagram-buffer-overflowed-unread", 1);
        }
    }
}
/// second family: one stream whose reader is absent or stops early, beside a served stream,
/// a fresh stream request and a datagram exchange
fn gen_c04_starved(r: &mut Prng, _i: u64, _t: Tier) -> Plan {
    let mut p = base_plan(r);
    for e in &mut p.eps {
        e.stream_buf = 16;
        e.dgram_buf = 512;
    }
    let starved_side = r.below(2);
    let mut s0 = gen_stream(r, &BURST);
    s0.delay = 0;
    let w: Vec<WOp> = (0..(20 + r.below(20))).map(|_| WOp::Write(1 + r.below(24))).collect();
    s0.sides[1 - starved_side].w = w;
    s0.sides[starved_side].r = if r.chance(1, 2) { vec![] } else { vec![ROp::Read { buf: 1 + r.below(8), times: 1 }] };
    s0.sides[starved_side].hold = true;
    s0.sides[1 - starved_side].hold = true;
    s0.sides[starved_side].w = vec![WOp::Write(3), WOp::Shutdown];
    s0.sides[1 - starved_side].r = vec![ROp::ReadEof { buf: 8 }];
    p.streams.push(s0);
    let mut s1 = gen_stream(r, &BURST);
    s1.delay = r.below(10);
    p.streams.push(s1);
    let mut s2 = gen_stream(r, &BURST);
    s2.delay = 20 + r.below(60);
    p.streams.push(s2);
    for from in 0..2 {
        let mut tx = gen_dgtx(r, from, 6, 4);
        for it in &mut tx.items {
            it.hlen = it.hlen.min(255);
            it.yields += 2;
        }
        p.dg_tx.push(tx);
        p.dg_rx.push(DgRx { ep: from, pace: vec![0], take: None });
    }
    p
}
fn x_c04_starved(r: &DuoRun, _wm: &WireModel, ei: &EndInfo, o: &mut Outcome) {
    // every accepted datagram reaches the (always receiving, never full) application
    let led = r.led.borrow();
    if ei.any_fault {
        return;
    }
    for from in 0..2 {
        let acc = led.dg.sent[from].iter().filter(|x| x.2.is_ok()).count();
        let got = led.dg.taken[1 - from].len();
        if got < acc {
            o.violate("C04:datagram-stall", format!("endpoint {from} sent {acc} datagrams, the always-receiving peer application got {got} although its 512-slot buffer never filled — a starved stream delayed datagrams"));
        }
    }
    let st = &led.streams[0];
    if st.sides.iter().any(|s| s.writes.iter().any(|w| w.ret.is_none())) {
        o.probe("starved-writer-parked", 1);
    }
}
fn nt_c04(r: &DuoRun, wm: &WireModel, _e: &EndInfo) -> bool {
    wm.n_push >= 8 && r.led.borrow().streams.iter().any(|s| s.sides.iter().any(|sd| sd.writes.iter().any(|w| w.ret.is_some_and(|t| t > w.inv + 2))))
}
pub fn c04() -> Check {
    let mut sweep = DuoFamily { name: "pairs", quick: 100 * 1296, thorough: 1296 * 2000, generate: gen_c04, cfg: OracleCfg::default(), extra: None, nontrivial: nt_c04, rule: "all 36 x 36 (rwnd, threshold) pairs from {1,2,3,4,8,16}^2 on the two sides are enumerated by run index (each pair several times with fresh workloads and schedules), writers send bursts longer than any window, every reader reads to end-of-stream, acceptors keep accepting. Liveness = at exact quiescence no write is pending whose peer keeps reading, no reader is stuck behind accepted bytes or a completed shutdown, no open is pending. Non-trivial: a writer was parked on credit and >=8 Push frames crossed.", exhaustive_thorough: false, stride: 1 };
    sweep.exhaustive_thorough = false;
    duo_check(
        "C04",
        "exploration",
        vec![Box::new(sweep), fam("starved", 150000, 1_000_000, gen_c04_starved, OracleCfg::default(), Some(x_c04_starved), nt_c04, "one stream whose reader is absent or stops after one frame (kept alive, so no Reset unblocks it) beside a normally served stream, a stream opened later and datagram exchanges in both directions: only the starved stream's writer may pend at quiescence."),
            fam("unread-datagrams", 60000, 600_000, gen_c04_unread_dgrams, OracleCfg::default(), Some(x_c04_unread), nt_c04, "the `pairs` workload plus a stream opened later, while each side's application never calls get_datagram and the peer sends more datagrams than the 1-4 slot datagram buffer holds: reading streams and accepting is all the premise asks of the receiving application, so every stream write must still complete, every byte become readable and the late open succeed.")],
        vec!["writer-parked-on-credit", "starved-writer-parked", "datagram-buffer-overflowed-unread"],
    )
}

// ------------------------------------------------------------------ C05

const HISTORIES: Prof = Prof { max_writes: 12, max_size: 24, p_empty: 200, p_vectored: 300, p_flush: 80, p_yield: 250, p_shutdown: 700, p_write_after_shutdown: 400, p_drop_mid: 150, p_read_eof: 700, p_fill: 400, p_reader_absent: 80, hold: 150, max_buf: 32 };
fn gen_c05(r: &mut Prng, _i: u64, _t: Tier) -> Plan {
    let mut p = base_plan(r);
    let n = 1 + r.below(3);
    for _ in 0..n {
        let mut s = gen_stream(r, &HISTORIES);
        // vectored writes whose slices are all empty
        if r.chance(1, 4) {
            let side = r.below(2);
            let at = r.below(s.sides[side].w.len() + 1);
            s.sides[side].w.insert(at.min(s.sides[side].w.iter().position(|o| *o == WOp::Shutdown || *o == WOp::Drop).unwrap_or(usize::MAX)), WOp::WriteV(vec![0; 1 + r.below(3)]));
        }
        p.streams.push(s);
    }
    p
}
fn nt_c05(r: &DuoRun, _wm: &WireModel, _e: &EndInfo) -> bool {
    r.led.borrow().streams.iter().any(|s| s.sides.iter().any(|sd| sd.eof.is_some()))
}
fn x_c05(r: &DuoRun, _wm: &WireModel, _e: &EndInfo, o: &mut Outcome) {
    let led = r.led.borrow();
    let mut empties = 0;
    let mut halfclose = 0;
    for s in &led.streams {
        for (i, sd) in s.sides.iter().enumerate() {
            empties += sd.writes.iter().filter(|w| w.n == 0 && matches!(w.res, Some(Ok(_)))).count() as u64;
            // half-close exercised: data read on this side after its own shutdown completed
            if let Some(sh) = sd.shutdown_ret {
                if sd.reads.iter().any(|(q, _)| *q > sh) && s.sides[1 - i].accepted > 0 {
                    halfclose += 1;
                }
            }
        }
    }
    o.probe("zero-length-write", empties);
    o.probe("read-after-own-shutdown", halfclose);
}
/// the local Multiplexor handle is dropped on a healthy transport while a stream object survives and
/// keeps reading: end-of-stream must still come only after everything the peer had sent
fn gen_c05_drop(r: &mut Prng, _i: u64, _t: Tier) -> Plan {
    let mut p = base_plan(r);
    p.link.drop_after_close = false;
    let x = r.below(2);
    for _ in 0..(1 + r.below(2)) {
        let mut s = gen_stream(r, &CLEAN);
        let xs = if s.opener == x { 0 } else { 1 };
        // the dropping side keeps its stream and reads to the end; the peer writes and finishes
        s.sides[xs].hold = true;
        s.sides[xs].r = vec![ROp::Yield(r.below(8)), ROp::ReadEof { buf: 1 + r.below(32) }];
        s.sides[1 - xs].hold = true;
        p.streams.push(s);
    }
    let span = *r.pick(&[15usize, 40, 100, 250]);
    p.faults.push(Fault { at: r.below(span) as u64, kind: FaultKind::DropMux { ep: x } });
    p
}
pub fn c05() -> Check {
    let mut c = c05_base();
    c.families.push(fam("local-drop", 200_000, 2_000_000, gen_c05_drop, OracleCfg::default(), Some(x_c05), nt_c05, "the local Multiplexor handle is dropped at a seeded scheduling round on a healthy transport while a stream object survives and reads to end-of-stream, the peer still writing and finishing: end-of-stream must come only after every byte the peer had put on the wire before it answered the Close."));
    c.required_probes.push("read-to-eof-after-own-drop");
    c.families.push(Box::new(C05RawFamily));
    c.required_probes.push("empty-push-from-third-party-peer");
    c
}
pub struct C05RawFamily;
impl Family for C05RawFamily {
    fn name(&self) -> &'static str {
        "third-party-peer"
    }
    fn runs(&self, tier: Tier) -> u64 {
        if tier == Tier::Quick { 60_000 } else { 1_000_000 }
    }
    fn generate(&self, batch_seed: u64, index: u64, _tier: Tier) -> (Value, u64) {
        let seed = simcore::prng::mix(batch_seed, "third-party-peer", index);
        let mut r = Prng::new(seed);
        let r = &mut r;
        let rwnd = *r.pick(&[2u32, 4, 16]);
        let n = 1 + r.below(rwnd as usize);
        let plan = crate::solo::C05RawPlan {
            ep: EpCfg { rwnd, threshold: 1 + r.below(rwnd as usize) as u32, dgram_buf: 8, stream_buf: 4, bind_buf: 0, retries: 3, ids: vec![], keepalive_ms: [0, 0] },
            link: LinkCfg { window: *r.pick(&[1usize, 8, 1 << 20]), latency_ms: 0, drop_after_close: false, ws_client: 0, bp_flush: r.chance(1, 2) },
            weights: gen_weights(r),
            pushes: (0..n).map(|_| if r.chance(1, 3) { 0 } else { 1 + r.below(12) }).collect(),
            gaps: r.below(4),
            end: r.below(3) as u8,
            buf: *r.pick(&[1usize, 3, 64]),
            fill: r.chance(1, 2),
        };
        (serde_json::to_value(plan).expect("plan"), seed)
    }
    fn exec(&self, plan: &Value, sched: &Sched, record: bool) -> Outcome {
        let Ok(plan) = serde_json::from_value::<crate::solo::C05RawPlan>(plan.clone()) else { return Outcome::default() };
        crate::solo::run_c05_raw(&plan, sched, record)
    }
    fn rule(&self) -> &'static str {
        "one real endpoint whose application accepts a stream and reads it to end-of-stream (read or fill_buf/consume, buffers 1..64), against a raw peer that is conforming but not this implementation: it opens the stream and sends 1..rwnd Push frames of which about a third carry a zero-length payload, then Finish, Reset or nothing. End-of-stream may be read only after the Finish/Reset and after every pushed byte; with neither, never. Non-trivial: a zero-length Push was among them."
    }
}
fn c05_base() -> Check {
    duo_check(
        "C05",
        "exploration",
        vec![fam("histories", 400000, 3_000_000, gen_c05, OracleCfg::default(), Some(x_c05), nt_c05, "per stream end a seeded history over write(n>=0), write_vectored(incl. all-empty), flush, shutdown (also repeated), writes after shutdown, drop, read(k), fill_buf+consume, read-to-EOF, reader stopping early. A read returning 0 needs a terminating event of the peer's write side with a smaller sequence number; after a clean shutdown the reader must have received everything written before it; writes after local shutdown / consumed peer Reset must fail with BrokenPipe; no Push after Finish on the wire. Non-trivial: some reader reached end-of-stream.")],
        vec!["zero-length-write", "read-after-own-shutdown", "reset-on-wire"],
    )
}

// ------------------------------------------------------------------ C06

fn gen_close_side(r: &mut Prng, style: usize) -> SidePlan {
    // style: 0 = finish + read to EOF then drop, 1 = abort after some traffic, 2 = abort at once,
    // 3 = shutdown then drop without reading, 4 = reader drops mid-way
    let nw = r.below(10);
    let mut w: Vec<WOp> = (0..nw).map(|_| WOp::Write(1 + r.below(20))).collect();
    if r.chance(1, 3) {
        w.insert(r.below(w.len() + 1), WOp::Yield(1 + r.below(5)));
    }
    let rd = |r: &mut Prng| if r.chance(1, 2) { ROp::ReadEof { buf: 1 + r.below(32) } } else { ROp::FillEof { consume: r.below(16) } };
    match style {
        0 => {
            w.push(WOp::Shutdown);
            SidePlan { w, r: vec![rd(r)], hold: false }
        }
        1 => {
            w.push(WOp::Drop);
            SidePlan { w, r: vec![ROp::Read { buf: 1 + r.below(16), times: r.below(4) }, rd(r)], hold: false }
        }
        2 => SidePlan { w: vec![WOp::Drop], r: vec![], hold: false },
        3 => {
            w.push(WOp::Shutdown);
            SidePlan { w, r: vec![ROp::Read { buf: 4, times: r.below(3) }], hold: false }
        }
        _ => {
            w.push(WOp::Shutdown);
            SidePlan { w, r: vec![ROp::Read { buf: 1 + r.below(8), times: 1 + r.below(3) }, ROp::Drop], hold: false }
        }
    }
}
const CYCLE_ID: u32 = 0x0c06_0001;
fn gen_c06(r: &mut Prng, _i: u64, t: Tier) -> Plan {
    let mut p = base_plan(r);
    p.probe_leaks = true;
    let cycles = 1 + r.below(if t == Tier::Quick { 6 } else { 30 });
    // endpoint 0 re-opens with the same flow id every cycle; bystanders come from endpoint 1
    let reuse = r.chance(3, 4);
    if reuse {
        p.eps[0].ids = vec![CYCLE_ID; cycles];
    }
    for k in 0..cycles {
        let a = r.below(5);
        let b = r.below(5);
        p.streams.push(StreamPlan { opener: 0, port: k as u16, pad: r.below(4), delay: r.below(3), after: if k > 0 { Some(k - 1) } else { None }, after_abort: None, after_let_go: None, raw_host: None, sides: [gen_close_side(r, a), gen_close_side(r, b)] });
    }
    for _ in 0..r.below(3) {
        let mut s = gen_stream(r, &CLEAN);
        s.opener = 1;
        p.streams.push(s);
    }
    p
}
/// early reuse: endpoint 0 aborts a stream and immediately opens another one with the SAME flow id
/// (scripted ids), while endpoint 1's application still holds its object of the aborted stream
/// and lets go of it only later. "Dropping a stream ... all other streams keep their data and
/// state": the new stream must not be touched by the late drop of the old object.
fn gen_c06_early_reuse(r: &mut Prng, _i: u64, _t: Tier) -> Plan {
    let mut p = base_plan(r);
    p.eps[0].ids = vec![CYCLE_ID; 12];
    p.eps[0].retries = 12;
    // the new stream may come from either endpoint (an endpoint proposes the id only once its own
    // slot is free, otherwise its generator moves on: up to 12 scripted retries)
    let new_opener = r.below(2);
    if new_opener == 1 {
        p.eps[1].ids = vec![CYCLE_ID; 12];
        p.eps[1].retries = 12;
    }
    let x = r.below(2); // which side of the old stream aborts first (0 = the opener)
    // The old stream carries no data and the lingering side lets go only after it has seen the
    // abort (EOF): then no frame of the old incarnation is in flight when the id is re-used.
    // (Frames of an old incarnation that are still in flight when its id is re-used are
    // indistinguishable from frames of the new one on the wire -- a limit of the protocol, not of
    // this implementation, and not what this family judges.)
    // Variant with data: the aborting side first writes a few frames (fewer than the window, so it
    // never waits for credit) which the lingering application reads only after the id has been
    // re-used -- reading must not produce frames (Acknowledge) for a flow this endpoint knows is
    // closed, because the peer would credit them to the new stream.
    let lingering_ep = if x == 0 { 1 } else { 0 };
    let k = if r.chance(1, 2) { 0 } else { r.below(p.eps[lingering_ep].rwnd.min(4) as usize + 1) };
    let mut w: Vec<WOp> = (0..k).map(|_| WOp::Write(1 + r.below(9))).collect();
    w.push(WOp::Drop);
    let first = SidePlan { w, r: vec![], hold: false };
    let linger = 1 + r.below(120);
    let rd = if k > 0 { vec![ROp::AwaitOpened(1), ROp::Yield(r.below(20)), ROp::ReadEof { buf: 1 + r.below(8) }] } else { vec![ROp::ReadEof { buf: 8 }] };
    // or it never reads them: the old object is dropped with unread data after the id was re-used
    let last = if k > 0 && r.chance(1, 3) {
        SidePlan { w: vec![WOp::AwaitOpened(1), WOp::Yield(linger), WOp::Drop], r: vec![], hold: false }
    } else if r.chance(1, 3) {
        // or it still writes to the stale object after the id was re-used: the write must fail,
        // its bytes must not travel under the id that now belongs to the new stream
        SidePlan { w: vec![WOp::AwaitOpened(1), WOp::Yield(r.below(30)), WOp::Write(1 + r.below(20)), WOp::Yield(linger), WOp::Drop], r: rd, hold: false }
    } else {
        SidePlan { w: vec![WOp::AwaitEof, WOp::Yield(linger), WOp::Drop], r: rd, hold: false }
    };
    let sides = if x == 0 { [first, last] } else { [last, first] };
    p.streams.push(StreamPlan { opener: 0, port: 1, pad: 0, delay: 0, after: None, after_abort: None, after_let_go: None, raw_host: None, sides });
    // the new stream under the same id, opened while the old object still exists somewhere
    let mut s = gen_stream(r, &CLEAN);
    s.opener = new_opener;
    s.delay = r.below(12);
    s.after = None;
    s.after_abort = Some(0);
    p.streams.push(s);
    if r.chance(1, 2) && new_opener == 0 {
        let mut b = gen_stream(r, &CLEAN);
        b.opener = 1;
        p.streams.push(b);
    }
    p
}
/// The family's space: the old stream is aborted by one side, its other side lets go only after it
/// has seen the abort, and reads buffered data only after the id was re-used. The minimiser may
/// shrink everything else; a candidate outside this space (e.g. both sides aborting at once, whose
/// crossing Reset frames are ambiguous on the wire once the id is re-used) is not judged.
fn c06_early_in_space(p: &Plan) -> bool {
    if p.streams.len() < 2 || p.streams[1].after_abort != Some(0) || p.streams[0].after.is_some() || p.streams[1].after.is_some() {
        return false;
    }
    let s0 = &p.streams[0];
    let is_first = |sd: &SidePlan| sd.r.is_empty() && !sd.hold && sd.w.last() == Some(&WOp::Drop) && sd.w[..sd.w.len() - 1].iter().all(|o| matches!(o, WOp::Write(n) if *n > 0));
    let is_last = |sd: &SidePlan, data: bool| {
        if data && !sd.hold && sd.r.is_empty() && matches!(sd.w.as_slice(), [WOp::AwaitOpened(1), WOp::Yield(_), WOp::Drop]) {
            return true;
        }
        !sd.hold
            && (matches!(sd.w.as_slice(), [WOp::AwaitEof, WOp::Yield(_), WOp::Drop]) || matches!(sd.w.as_slice(), [WOp::AwaitOpened(1), WOp::Yield(_), WOp::Write(_), WOp::Yield(_), WOp::Drop]))
            && matches!(sd.r.last(), Some(ROp::ReadEof { .. }))
            && (!data || matches!(sd.r.first(), Some(ROp::AwaitOpened(1))))
            && sd.r.iter().all(|o| matches!(o, ROp::ReadEof { .. } | ROp::AwaitOpened(1) | ROp::Yield(_)))
    };
    (0..2).any(|a| is_first(&s0.sides[a]) && is_last(&s0.sides[1 - a], s0.sides[a].w.len() > 1))
}
/// for checks of other properties that borrow the early-reuse workload: only the family-space guard
fn x_early_reuse_space_only(r: &DuoRun, _wm: &WireModel, _ei: &EndInfo, o: &mut Outcome) {
    if !c06_early_in_space(&r.plan) {
        o.violations.clear();
    }
}
fn x_c06_early(r: &DuoRun, _wm: &WireModel, ei: &EndInfo, o: &mut Outcome) {
    if !c06_early_in_space(&r.plan) {
        o.violations.clear();
        return;
    }
    if ei.any_fault {
        return;
    }
    // any disturbance of the new stream or the bystander is this property's "all other streams keep
    // their data and state" (the clauses below belong to other properties when seen elsewhere)
    let hit: Vec<String> = o.violations.iter().filter(|v| ["C03:reset-unexplained", "C07:ghost-accept", "C05:eof-unjustified", "C05:eof-before-data", "C02:eof-equality", "C04:stall-write", "C04:stall-read", "C04:open-stall", "C04:eof-stall", "C07:open-error"].contains(&v.class.as_str())).map(|v| format!("{}: {}", v.class, v.msg)).collect();
    if let Some(h) = hit.first() {
        o.violate("C06:other-stream-disturbed", format!("a stream object of an aborted stream was dropped after its flow id had been re-used, and another stream was disturbed: {h}"));
    }
    let led = r.led.borrow();
    let l = r.link.lock().unwrap();
    // did the second stream really get the id of the first while an old object was alive?
    let ids: Vec<(u64, u32)> = l.evs.iter().filter(|e| e.stage == Stage::Consumed).filter_map(|e| match &*e.w { Wire::Frame(RFrame::Connect { id, .. }) => Some((e.seq, *id)), _ => None }).collect();
    let (Some(a), Some(b)) = (led.streams.first(), led.streams.get(1)) else { return };
    let old_dropped_last = a.sides.iter().filter_map(|sd| sd.dropped).max();
    if std::env::var_os("DEBUG_C06").is_some() {
        eprintln!("DBG opener1={} ids={:x?} old_dropped={:?} b_open={:?} b_ret={:?} b_got={:?}", r.plan.streams[1].opener, ids, a.sides.iter().map(|sd| sd.dropped).collect::<Vec<_>>(), b.open_inv, b.open_ret.as_ref().map(|x| x.0), b.sides[1].got_stream);
    }
    if let (Some(d), Some(c2)) = (old_dropped_last, ids.iter().filter(|c| c.1 == CYCLE_ID).nth(1)) {
        if c2.0 < d && b.sides[1].got_stream.is_some() {
            o.probe("id-reused-while-old-object-alive", 1);
        }
    }
}
fn x_c06(r: &DuoRun, _wm: &WireModel, ei: &EndInfo, o: &mut Outcome) {
    if ei.any_fault || r.plan.eps[0].ids.is_empty() {
        return;
    }
    let led = r.led.borrow();
    let l = r.link.lock().unwrap();
    // re-open with the scripted id: both ends have let go and the system went quiescent in
    // between, so the id must be free at both endpoints: exactly one Connect(X), answered by
    // one Acknowledge(X), no Reset, no retry
    let cycles = r.plan.eps[0].ids.len();
    let mut reopened = 0;
    for k in 0..cycles.min(led.streams.len()) {
        let s = &led.streams[k];
        let Some(inv) = s.open_inv else { continue };
        let host = r.plan.streams[k].host(k);
        let connects: Vec<(u64, u32)> = l.evs.iter().filter(|e| e.stage == Stage::Sent && e.from == 0).filter_map(|e| match &*e.w { Wire::Frame(RFrame::Connect { id, host: h, .. }) if *h == host => Some((e.seq, *id)), _ => None }).collect();
        let want = r.plan.eps[0].ids[k];
        if connects.len() != 1 || connects[0].1 != want {
            o.violate("C06:id-not-free", format!("cycle {k}: both applications had let go of the previous stream with flow id {want:x} and the system was quiescent, yet re-opening produced Connect frames {:x?} (expected exactly one, with that id)", connects.iter().map(|c| c.1).collect::<Vec<_>>()));
            continue;
        }
        // the handshake window: from the Connect to the first Acknowledge(X) the peer sends after it
        let c = connects[0].0;
        let ack = l.evs.iter().find(|e| e.stage == Stage::Sent && e.from == 1 && e.seq > c && matches!(&*e.w, Wire::Frame(RFrame::Ack { id, .. }) if *id == want)).map(|e| e.seq);
        let resets = l.evs.iter().filter(|e| e.stage == Stage::Sent && e.from == 1 && e.seq > c && e.seq < ack.unwrap_or(u64::MAX) && matches!(&*e.w, Wire::Frame(RFrame::Reset { id }) if *id == want)).count();
        let _ = inv;
        if !matches!(s.open_ret, Some((_, Ok(())))) || resets > 0 || ack.is_none() {
            o.violate("C06:reopen-failed", format!("cycle {k}: re-opening flow id {want:x} after both ends let go returned {:?}; the peer answered the Connect with {resets} Reset frames and {} Acknowledge", s.open_ret, if ack.is_some() { "an" } else { "no" }));
        }
        if k > 0 {
            reopened += 1;
        }
    }
    o.probe("same-id-reopened", reopened);
}
fn nt_c06(r: &DuoRun, wm: &WireModel, _e: &EndInfo) -> bool {
    wm.n_reset > 0 && r.led.borrow().streams.iter().filter(|s| s.sides.iter().all(|sd| sd.dropped.is_some())).count() >= 2
}
pub fn c06() -> Check {
    duo_check(
        "C06",
        "exploration",
        vec![fam("cycles", 100000, 600_000, gen_c06, OracleCfg::default(), Some(x_c06), nt_c06, "1..30 open/transfer/close cycles on one connection with every close style per side (finish+read to EOF, abort after traffic, abort at once, shutdown then drop unread, reader drops mid-way) while bystander streams carry checked traffic; a scripted flow-id RNG forces each re-open to use the same id, only after both applications dropped the previous stream and the system went quiescent. Oracles: peer of an aborted stream reads a prefix then EOF and its later writes fail; exactly one Connect(X)/Acknowledge(X) per re-open, no Reset; byte/credit models of the new stream start fresh; black-box leak probe (Acknowledge(id,0) for every id ever used must draw a Reset). Non-trivial: >=2 streams released by both ends and a Reset crossed the wire."),
            fam("early-reuse", 60000, 600_000, gen_c06_early_reuse, OracleCfg::default(), Some(x_c06_early), nt_c06, "one side aborts a stream and the requester at once opens a new stream with the SAME flow id (scripted ids) while the other application still holds its object of the aborted stream and drops it 1-60 scheduling rounds later; a bystander stream alongside. The new stream is another stream: the late drop must neither reset it nor take its data (general oracles: unexplained Reset, unjustified EOF, spurious write failure, stalls).")],
        vec!["same-id-reopened", "leak-probes", "reset-on-wire", "id-reused-while-old-object-alive"],
    )
}

// ------------------------------------------------------------------ C11

fn gen_c11(r: &mut Prng, _i: u64, _t: Tier) -> Plan {
    let mut p = base_plan(r);
    for from in 0..2 {
        if from == 1 && r.chance(1, 2) {
            continue;
        }
        let cap = p.eps[1 - from].dgram_buf;
        let burst = (1 + r.below(4)) * cap.min(24) + r.below(3);
        let mut tx = gen_dgtx(r, from, burst, 0);
        for it in &mut tx.items {
            if r.chance(1, 25) {
                it.hlen = 256 + r.below(45);
            }
            if r.chance(1, 3) {
                it.len = r.below(5);
            }
            // datagram flow ids may share the stream flow-id space (PROTOCOL.md): use ids of live streams
            if r.chance(1, 4) {
                it.flow = ((1 + r.below(2) as u32) << 28) + 1 + r.below(3) as u32;
            }
        }
        p.dg_tx.push(tx);
        if r.chance(1, 3) {
            p.dg_tx.push(gen_dgtx(r, from, 4, 0));
        }
        p.dg_rx.push(DgRx { ep: 1 - from, pace: (0..(1 + r.below(4))).map(|_| r.below(6)).collect(), take: if r.chance(1, 6) { Some(r.below(4)) } else { None } });
    }
    for _ in 0..r.below(3) {
        p.streams.push(gen_stream(r, &CLEAN));
    }
    // a third of the runs: the connection tasks feel tokio's cooperative budget, as on a busy
    // runtime (spurious Pending from channel operations once a lot has happened in one turn)
    p.coop = r.chance(1, 3);
    // "a datagram is lost only when the buffer is full or the connection ends"
    if r.chance(1, 6) {
        let kind = gen_end_cause(r);
        let span = *r.pick(&[10usize, 40, 150]);
        p.faults.push(Fault { at: r.below(span) as u64, kind });
    }
    p
}
/// datagram bursts on a slow link with keepalive on: "no datagram, whatever its size or rate,
/// terminates the connection"
fn gen_c11_keepalive(r: &mut Prng, i: u64, t: Tier) -> Plan {
    let mut p = gen_c11(r, i, t);
    p.faults.clear();
    p.link.window = 1 + r.below(2);
    p.link.latency_ms = *r.pick(&[5u64, 20, 50]);
    // interval and timeout far above the round trip of the link (a few message times), far below
    // the time the burst needs
    let iv = p.link.latency_ms * *r.pick(&[20u64, 40]);
    for e in &mut p.eps {
        e.keepalive_ms = [iv, iv * *r.pick(&[1u64, 2])];
    }
    // a burst whose transmission takes longer than the keepalive timeout
    let from = r.below(2);
    let n = 100 + r.below(150);
    let items = (0..n).map(|_| DgItem { flow: r.next() as u32, hlen: r.below(10), port: r.next() as u16, len: r.below(40), yields: 0 }).collect();
    p.dg_tx.push(DgTx { from, items });
    p.horizon_ms = 120_000;
    p
}
fn x_c11_keepalive(r: &DuoRun, wm: &WireModel, ei: &EndInfo, o: &mut Outcome) {
    // the family's space: keepalive periods at least 20 message times (the minimiser must not
    // shrink them below the round trip of the link, where a timeout is legitimate)
    let lat = r.plan.link.latency_ms.max(1);
    if r.plan.eps.iter().any(|e| e.keepalive_ms[0] < 20 * lat || e.keepalive_ms[1] < e.keepalive_ms[0]) {
        o.violations.clear();
        return;
    }
    x_c11(r, wm, ei, o);
}
fn x_c11(r: &DuoRun, _wm: &WireModel, _ei: &EndInfo, o: &mut Outcome) {
    // stream traffic on the same connection must be neither blocked nor corrupted
    let disturbed: Vec<String> = o.violations.iter().filter(|v| v.class.starts_with("C02:") || v.class.starts_with("C04:") || v.class.starts_with("C03:")).map(|v| format!("{}: {}", v.class, v.msg)).collect();
    if let Some(d) = disturbed.first() {
        o.violate("C11:stream-disturbed", format!("stream traffic beside datagram bursts was disturbed: {d}"));
    }
    let led = r.led.borrow();
    let short = led.dg.sent.iter().flatten().filter(|x| x.1.data.len() < 4 && x.2.is_ok()).count() as u64;
    let long = led.dg.sent.iter().flatten().filter(|x| x.1.host.len() > 255).count() as u64;
    o.probe("datagram-payload-under-4-bytes", short);
    o.probe("datagram-host-over-255", long);
    o.probe("datagram-delivered", led.dg.taken.iter().map(|t| t.len() as u64).sum());
}
fn nt_c11(r: &DuoRun, _wm: &WireModel, _e: &EndInfo) -> bool {
    r.led.borrow().dg.taken.iter().map(|t| t.len()).sum::<usize>() >= 2
}
pub fn c11() -> Check {
    duo_check(
        "C11",
        "exploration",
        vec![fam("bursts", 300000, 2_000_000, gen_c11, OracleCfg::default(), Some(x_c11), nt_c11, "datagram senders on one or both sides: host length 0..300, payload 0,1,2,3,4..64 KiB, flow ids incl. 0 and u32::MAX, all ports, bursts of 1..4x datagram_buffer_size (sizes 1,2,8,512); receivers drain at a seeded pace or stop; 0-2 checked streams in parallel. Oracle: wire frames = accepted datagrams in order; the receiving application's sequence equals an exact bounded-queue model evaluated on the global event order (a datagram may be missing only if the buffer was full at the instant its frame was consumed); >255-byte hosts refused with DatagramHostTooLong and absent from the wire; the connection task never returns; stream models hold. Non-trivial: >=2 datagrams delivered."),
            fam("bursts-under-keepalive", 30000, 300_000, gen_c11_keepalive, OracleCfg::default(), Some(x_c11_keepalive), nt_c11, "the `bursts` workload plus one burst of 100-250 datagrams on a link that takes 5-50 ms per message with room for 1-2 messages, both endpoints with keepalive on (interval 20-40 message times, timeout 1-2 intervals; pings answered by the transport as soon as they arrive): the burst takes longer to transmit than the timeout. Nothing but an injected fault may end the connection.")],
        vec!["dgram-legit-drop", "dgram-buffer-exactly-full", "datagram-payload-under-4-bytes", "datagram-host-over-255"],
    )
}

// ------------------------------------------------------------------ C15

fn gen_binds(r: &mut Prng, p: &mut Plan, max: usize) {
    for from in 0..2 {
        if r.chance(1, 2) && from == 1 {
            continue;
        }
        let to = 1 - from;
        p.eps[to].bind_buf = *r.pick(&[0usize, 1, 2, 4, 16]);
        let n = 1 + r.below(max);
        for _ in 0..n {
            p.binds.push(BindReq { from, port: r.next() as u16, ty: if r.chance(1, 2) { 1 } else { 3 }, hlen: if r.chance(1, 6) { r.below(200) } else { r.below(12) }, delay: r.below(8), after_abort: false });
        }
        if p.eps[to].bind_buf > 0 && !r.chance(1, 10) {
            let answers = (0..(n + 2)).map(|_| match r.below(6) { 0 => Answer::Accept, 1 => Answer::Reject, 2 => Answer::Drop, 3 => Answer::Hold, 4 => Answer::AcceptLater(r.below(3)), _ => Answer::Accept }).collect();
            if r.chance(1, 3) {
                // a pool of one-shot workers, all waiting in next_bind_request at the same time
                let answers: Vec<Answer> = answers;
                for k in 0..(n + r.below(2)).max(2) {
                    let a = match answers.get(k).cloned().unwrap_or(Answer::Accept) {
                        Answer::AcceptLater(_) => Answer::Accept,
                        a => a,
                    };
                    p.responders.push(Responder { ep: to, answers: vec![a], yields: r.below(12), forget_after_reply: r.chance(1, 4), oneshot: true });
                }
            } else {
                p.responders.push(Responder { ep: to, answers, yields: r.below(5), forget_after_reply: r.chance(1, 4), oneshot: false });
            }
        } else if p.eps[to].bind_buf > 0 {
            // no responder at all: keep the requests within the buffer so the peer's task is not blocked
            let cap = p.eps[to].bind_buf;
            let mut k = 0;
            p.binds.retain(|b| {
                if b.from == from {
                    k += 1;
                    k <= cap
                } else {
                    true
                }
            });
        }
    }
}
fn gen_c15(r: &mut Prng, _i: u64, _t: Tier) -> Plan {
    let mut p = base_plan(r);
    gen_binds(r, &mut p, 6);
    for _ in 0..r.below(3) {
        p.streams.push(gen_stream(r, &CLEAN));
    }
    if r.chance(1, 3) {
        let from = r.below(2);
        let mut tx = gen_dgtx(r, from, 5, 4);
        for it in &mut tx.items {
            it.hlen = it.hlen.min(255);
        }
        p.dg_rx.push(DgRx { ep: 1 - tx.from, pace: vec![r.below(3)], take: None });
        p.dg_tx.push(tx);
    }
    // the connection may end first: then `false` or Closed are the only legal answers, also for
    // requests made after the end
    if r.chance(1, 4) {
        let kind = gen_end_cause(r);
        let span = *r.pick(&[10usize, 40, 150]);
        p.faults.push(Fault { at: r.below(span) as u64, kind });
        p.late_ops = true;
    }
    p
}
/// id reuse: tiny id space on both sides, binds and streams draw from it concurrently
fn gen_c15_reuse(r: &mut Prng, _i: u64, _t: Tier) -> Plan {
    let mut p = base_plan(r);
    let space = 2 + r.below(5);
    for e in &mut p.eps {
        e.ids = (0..40).map(|_| r.below(space) as u32 + 1).collect();
        e.retries = 1 + r.below(4);
        e.rwnd = 4;
        e.threshold = 2;
        e.stream_buf = 16;
    }
    gen_binds(r, &mut p, 4);
    for rsp in &mut p.responders {
        for a in &mut rsp.answers {
            if *a == Answer::Hold {
                *a = Answer::Reject;
            }
        }
    }
    let hold: Prof = Prof { hold: 1000, max_writes: 4, ..CLEAN };
    for _ in 0..(1 + r.below(4)) {
        let mut s = gen_stream(r, &hold);
        s.delay = r.below(30);
        p.streams.push(s);
    }
    p
}
/// a bind request takes the flow id of a stream the peer has aborted, while this endpoint's
/// application still holds the object of that stream and drops it only after the request is out;
/// the peer application answers late. The late drop must not resolve (or disturb) the request.
fn gen_c15_bind_after_abort(r: &mut Prng, _i: u64, _t: Tier) -> Plan {
    let mut p = base_plan(r);
    p.eps[0].ids = vec![CYCLE_ID; 12];
    p.eps[0].retries = 12;
    p.eps[1].bind_buf = 4;
    let linger = 5 + r.below(80);
    // stream 0: opened by endpoint 0, aborted at once by endpoint 1's application; endpoint 0 lets go later
    let first = SidePlan { w: vec![WOp::Drop], r: vec![], hold: false };
    let last = SidePlan { w: vec![WOp::AwaitEof, WOp::Yield(linger), WOp::Drop], r: vec![ROp::ReadEof { buf: 8 }], hold: false };
    p.streams.push(StreamPlan { opener: 0, port: 1, pad: 0, delay: 0, after: None, after_abort: None, after_let_go: None, raw_host: None, sides: [last, first] });
    p.binds.push(BindReq { from: 0, port: r.next() as u16, ty: if r.chance(1, 2) { 1 } else { 3 }, hlen: r.below(12), delay: r.below(6), after_abort: true });
    // the peer application answers after the old object is gone (it takes its time)
    let answer = match r.below(3) {
        0 => Answer::Accept,
        1 => Answer::Reject,
        _ => Answer::Accept,
    };
    p.responders.push(Responder { ep: 1, answers: vec![answer], yields: 60 + r.below(200), forget_after_reply: r.chance(1, 4), oneshot: false });
    if r.chance(1, 2) {
        let mut b = gen_stream(r, &CLEAN);
        b.opener = 1;
        p.streams.push(b);
    }
    p
}
fn x_c15_bind_after_abort(r: &DuoRun, _wm: &WireModel, _ei: &EndInfo, o: &mut Outcome) {
    let led = r.led.borrow();
    let l = r.link.lock().unwrap();
    // did the bind really go out under the id of the aborted stream while the old object lived?
    let bind_sent = l.evs.iter().find(|e| e.stage == Stage::Sent && e.from == 0 && matches!(&*e.w, Wire::Frame(RFrame::Bind { id, .. }) if *id == CYCLE_ID)).map(|e| e.seq);
    let old_dropped = led.streams.first().and_then(|s| s.sides[0].dropped);
    let answered = led.bind.seen[1].first().and_then(|s| s.replied_at);
    if let (Some(b), Some(d)) = (bind_sent, old_dropped) {
        if b < d && answered.is_none_or(|a| a > d) {
            o.probe("bind-pending-under-reused-id-when-old-stream-object-dropped", 1);
        }
    }
}
fn x_c15_reuse(_r: &DuoRun, _wm: &WireModel, _ei: &EndInfo, o: &mut Outcome) {
    // a finished bind must leave its flow id free: nothing it sends later may hit a stream
    // that legitimately re-used the id
    let hit: Vec<String> = o.violations.iter().filter(|v| ["C07:ghost-accept", "C05:eof-unjustified", "C06:spurious-write-failure", "C02:eof-equality", "C04:stall-write", "C04:stall-read", "C04:open-stall"].contains(&v.class.as_str())).map(|v| format!("{}: {}", v.class, v.msg)).collect();
    if let Some(h) = hit.first() {
        o.violate("C15:id-reuse-disturbed", format!("with bind requests and streams drawing flow ids from the same small space, a stream was disturbed: {h}"));
    }
}
fn nt_c15(r: &DuoRun, _wm: &WireModel, _e: &EndInfo) -> bool {
    let led = r.led.borrow();
    led.bind.results.iter().flatten().count() >= 1 && led.bind.seen.iter().map(|s| s.len()).sum::<usize>() >= 1
}
fn x_c15(r: &DuoRun, _wm: &WireModel, _ei: &EndInfo, o: &mut Outcome) {
    let led = r.led.borrow();
    o.probe("bind-accepted", led.bind.results.iter().flatten().filter(|x| matches!(x.1, Ok(true))).count() as u64);
    o.probe("bind-refused", led.bind.results.iter().flatten().filter(|x| matches!(x.1, Ok(false))).count() as u64);
    o.probe("bind-answered-out-of-order", led.bind.seen.iter().flatten().filter(|s| matches!(s.action, Answer::AcceptLater(_)) && s.reply == Some(true)).count() as u64);
    o.probe("bind-disabled-peer", r.plan.binds.iter().filter(|b| r.plan.eps[1 - b.from.min(1)].bind_buf == 0).count() as u64);
}
pub fn c15() -> Check {
    duo_check(
        "C15",
        "exploration",
        vec![
            fam("binds", 200000, 2_000_000, gen_c15, OracleCfg::default(), Some(x_c15), nt_c15, "1-6 concurrent request_bind calls from either side (types 1/3, hosts 0..200 bytes, all ports) against a peer with binds disabled or a buffer of 1..16; responder applications answer in a seeded order with accept / reject / drop / hold forever / accept later (out of order), with or without dropping the request object after the reply; stream and datagram traffic alongside. Each call's result is matched to what the responder was shown through a unique host string; flow ids are read off the wire. Non-trivial: a request was shown to the peer application and a call resolved."),
            fam("bind-after-abort", 40000, 400_000, gen_c15_bind_after_abort, OracleCfg::default(), Some(x_c15_bind_after_abort), nt_c15, "the peer aborts a stream; the requester's application still holds its object of that stream when it issues a bind request that draws the same flow id (scripted ids), and drops the old object while the request is pending; the peer application answers (accept / reject) 60-260 scheduling rounds later. The request must resolve with exactly that answer."),
            fam("id-reuse", 200000, 2_000_000, gen_c15_reuse, OracleCfg { accountant: false, ..OracleCfg::default() }, Some(x_c15_reuse), nt_c15, "both endpoints draw flow ids for binds and streams from a scripted space of 2-6 values, so that ids of answered binds are re-used at once by streams of either side; all streams are kept open. Any disturbance of such a stream (ghost accept, unjustified EOF, spurious write failure, stall) is a violation."),
        ],
        vec!["bind-accepted", "bind-refused", "bind-answered-out-of-order", "bind-disabled-peer", "late-call-after-end", "bind-pending-under-reused-id-when-old-stream-object-dropped"],
    )
}

// ------------------------------------------------------------------ C07

fn gen_c07(r: &mut Prng, _i: u64, _t: Tier) -> Plan {
    let mut p = base_plan(r);
    let space = 2 + r.below(5);
    for e in &mut p.eps {
        // scripted generators produce 0, live ids and the peer's simultaneous choice
        e.ids = (0..60).map(|_| r.below(space + 1) as u32).collect();
        e.retries = *r.pick(&[1usize, 2, 3, 5]);
        // an accept backlog of 1 or 2 slots fills up under a burst of opens and a slow acceptor:
        // every request that succeeded must still come out of accept_stream_channel
        e.stream_buf = *r.pick(&[1usize, 2, 16]);
    }
    p.accept_pace = *r.pick(&[0usize, 0, 3, 12]);
    p.link.latency_ms = 0;
    let n = [1 + r.below(4), 1 + r.below(4)];
    for me in 0..2 {
        for _ in 0..n[me] {
            let hl = match r.below(6) {
                0 => 0,
                1 => 1 + r.below(3),
                2 => 256 + r.below(45),
                _ => 4 + r.below(40),
            };
            let mut host = r.bytes(hl);
            // unique prefix when long enough, so that requests are distinguishable
            let uniq = p.streams.len() as u8;
            if host.len() >= 4 {
                host[0] = uniq;
                host[1] = 0xc7;
            }
            // behavioural credit cross-check: against a non-reading peer exactly `peer rwnd` writes complete
            let w: Vec<WOp> = (0..20).map(|_| WOp::Write(1)).collect();
            p.streams.push(StreamPlan { opener: me, port: r.next() as u16, pad: 0, delay: r.below(5), after: None, after_abort: None, after_let_go: None, raw_host: Some(host), sides: [SidePlan { w: w.clone(), r: vec![], hold: true }, SidePlan { w, r: vec![], hold: true }] });
        }
    }
    p
}
/// A flow id is proposed again while the acceptor still uses it for a stream the proposer has
/// finished and let go of: the acceptor's slot is half-closed (or closed in both directions but
/// still held by its application). The Connect must be rejected like one for a fully open flow,
/// and the stream that still exists must not be touched.
const HALF_ID: u32 = 0x0c07_0001;
fn gen_c07_half_closed(r: &mut Prng, _i: u64, _t: Tier) -> Plan {
    let mut p = base_plan(r);
    p.link.latency_ms = 0;
    // the proposer draws X for the old stream, X again for the new one, then fresh ids
    p.eps[0].ids = vec![HALF_ID, HALF_ID, HALF_ID + 1, HALF_ID + 2, HALF_ID + 3];
    p.eps[0].retries = *r.pick(&[2usize, 3, 5]);
    let k = r.below(p.eps[1].rwnd.min(4) as usize + 1);
    let mut w: Vec<WOp> = (0..k).map(|_| WOp::Write(1 + r.below(9))).collect();
    w.push(WOp::Shutdown);
    w.push(WOp::Drop);
    // the proposer finishes its direction properly and drops its object
    let finisher = SidePlan { w, r: vec![], hold: false };
    // the acceptor's application reads to the end and keeps its object; it may shut down its own
    // direction too, and after the id has been proposed again it may still write to its stream
    let mut lw = vec![WOp::AwaitEof];
    let also_shuts_down = r.chance(1, 3);
    if also_shuts_down {
        lw.push(WOp::Shutdown);
    }
    lw.push(WOp::AwaitOpened(1));
    lw.push(WOp::Yield(r.below(20)));
    if !also_shuts_down && r.chance(1, 2) {
        lw.push(WOp::Write(1 + r.below(20)));
    }
    let holder = SidePlan { w: lw, r: vec![ROp::ReadEof { buf: 1 + r.below(8) }], hold: true };
    p.streams.push(StreamPlan { opener: 0, port: 1, pad: 0, delay: 0, after: None, after_abort: None, after_let_go: None, raw_host: None, sides: [finisher, holder] });
    let mut s = gen_stream(r, &CLEAN);
    s.opener = 0;
    s.delay = r.below(6);
    s.after = None;
    s.after_abort = None;
    s.after_let_go = Some(0);
    p.streams.push(s);
    p
}
fn x_c07_half_closed(r: &DuoRun, wm: &WireModel, ei: &EndInfo, o: &mut Outcome) {
    if ei.any_fault {
        return;
    }
    let in_space = r.plan.streams.len() == 2 && r.plan.streams[1].after_let_go == Some(0) && r.plan.streams[0].sides[1].hold && r.plan.streams[0].sides[0].w.last() == Some(&WOp::Drop) && r.plan.streams[0].sides[0].w.contains(&WOp::Shutdown) && r.plan.eps[0].ids.len() >= 3 && r.plan.eps[0].ids[0] == r.plan.eps[0].ids[1] && r.plan.eps[0].ids[2] != r.plan.eps[0].ids[0] && r.plan.eps[0].retries >= 2;
    if !in_space {
        o.violations.clear();
        return;
    }
    let _ = wm;
    let l = r.link.lock().unwrap();
    let led = r.led.borrow();
    let x = r.plan.eps[0].ids[0];
    // Connect frames endpoint 0 sent with id X, in order, and what came back for the second one
    let connects: Vec<u64> = l.evs.iter().filter(|e| e.stage == Stage::Sent && e.from == 0 && matches!(&*e.w, Wire::Frame(RFrame::Connect { id, .. }) if *id == x)).map(|e| e.seq).collect();
    if connects.len() < 2 {
        return; // the id was not proposed again (the old stream never came to be, or the opener stopped)
    }
    let second = connects[1];
    let holder_still_holds = led.streams[0].sides[1].dropped.is_none_or(|d| d > second);
    if !holder_still_holds {
        return;
    }
    // a flow that both sides have finished is closed, held object or not: its id is free at both
    // ends and may be accepted again (the stale object then reads end-of-stream, fails to write,
    // and its late drop must leave the new flow alone - the general clauses watch that)
    let consumed_second = l.evs.iter().find(|e| e.stage == Stage::Consumed && e.from == 0 && e.seq > second && matches!(&*e.w, Wire::Frame(RFrame::Connect { id, .. }) if *id == x)).map(|e| e.seq).unwrap_or(u64::MAX);
    if l.evs.iter().any(|e| e.stage == Stage::Sent && e.from == 1 && e.seq < consumed_second && matches!(&*e.w, Wire::Frame(RFrame::Finish { id }) if *id == x)) {
        o.probe("id-proposed-again-after-both-sides-finished", 1);
        return;
    }
    // likewise when endpoint 0 has reset the old flow in the meantime: a late Acknowledge of
    // endpoint 1 for data it read met the slot endpoint 0 had already freed and drew a Reset
    // (PROTOCOL.md: Reset for frames on unknown flows) - the old flow is gone at endpoint 1 too
    if l.evs.iter().any(|e| e.stage == Stage::Consumed && e.from == 0 && e.seq > connects[0] && e.seq < consumed_second && matches!(&*e.w, Wire::Frame(RFrame::Reset { id }) if *id == x)) {
        o.probe("id-proposed-again-after-the-old-flow-was-reset", 1);
        return;
    }
    o.probe("id-proposed-again-while-the-peer-holds-a-half-closed-stream", 1);
    let answer = l.evs.iter().find(|e| e.stage == Stage::Sent && e.from == 1 && e.seq > second && matches!(&*e.w, Wire::Frame(RFrame::Ack { id, .. }) | Wire::Frame(RFrame::Reset { id }) if *id == x));
    match answer.map(|e| &*e.w) {
        Some(Wire::Frame(RFrame::Reset { .. })) => o.probe("half-closed-id-rejected", 1),
        Some(Wire::Frame(RFrame::Ack { .. })) => o.violate("C07:in-use-id-accepted", format!("endpoint 0 proposed flow id {x:x} again (seq {second}) while endpoint 1's application still held the stream with that id (finished by endpoint 0, still open from endpoint 1's side): the Connect was acknowledged instead of being rejected with Reset")),
        _ => {}
    }
}
fn x_c07(r: &DuoRun, _wm: &WireModel, ei: &EndInfo, o: &mut Outcome) {
    if ei.any_fault {
        return;
    }
    let led = r.led.borrow();
    let l = r.link.lock().unwrap();
    let plan = &r.plan;
    // ---- wire discipline
    let mut pending: [std::collections::HashMap<u32, u64>; 2] = Default::default(); // id -> connects outstanding, per requester
    let mut live: [std::collections::HashSet<u32>; 2] = Default::default();
    let mut connects_by_host: std::collections::HashMap<(usize, Vec<u8>, u16), Vec<u32>> = Default::default();
    let mut collisions = 0u64;
    let mut zero_rejected = 0u64;
    for e in &l.evs {
        if e.injected {
            continue;
        }
        let Wire::Frame(f) = &*e.w else { continue };
        let (from, to) = (e.from, 1 - e.from);
        match (f, e.stage) {
            (RFrame::Connect { id, rwnd, host, port }, Stage::Sent) => {
                if *id == 0 {
                    o.violate("C07:connect-id-zero", format!("endpoint {from} proposed flow id 0"));
                }
                if live[from].contains(id) || pending[from].get(id).copied().unwrap_or(0) > 0 {
                    o.violate("C07:connect-id-in-use", format!("endpoint {from} proposed flow id {id:x} which it already uses"));
                }
                if *rwnd != plan.eps[from].rwnd {
                    o.violate("C07:connect-rwnd", format!("Connect from endpoint {from} advertises window {rwnd}, configured {}", plan.eps[from].rwnd));
                }
                *pending[from].entry(*id).or_insert(0) += 1;
                connects_by_host.entry((from, host.clone(), *port)).or_default().push(*id);
            }
            (RFrame::Connect { id, .. }, Stage::Consumed) => {
                // a Connect arriving for an id that is live or pending at the receiver must be rejected
                if *id == 0 {
                    zero_rejected += 1;
                } else if live[to].contains(id) || pending[to].get(id).copied().unwrap_or(0) > 0 {
                    collisions += 1;
                }
            }
            (RFrame::Ack { id, n }, Stage::Sent) => {
                if pending[to].get(id).copied().unwrap_or(0) > 0 && !live[from].contains(id) {
                    if *n != plan.eps[from].rwnd {
                        o.violate("C07:handshake-rwnd", format!("handshake Acknowledge from endpoint {from} advertises window {n}, configured {}", plan.eps[from].rwnd));
                    }
                    live[from].insert(*id);
                }
            }
            (RFrame::Ack { id, .. }, Stage::Consumed) => {
                if let Some(c) = pending[to].get_mut(id) {
                    if *c > 0 && !live[to].contains(id) {
                        *c -= 1;
                        live[to].insert(*id);
                    }
                }
            }
            (RFrame::Reset { id }, Stage::Consumed) => {
                if let Some(c) = pending[to].get_mut(id) {
                    if *c > 0 && !live[to].contains(id) {
                        *c -= 1;
                    }
                }
            }
            _ => {}
        }
    }
    o.probe("connect-collision-with-live-or-pending-id", collisions);
    let _ = zero_rejected;
    // ---- one request, one stream, correct target; retries bounded
    for (t, s) in led.streams.iter().enumerate() {
        let st = &plan.streams[t];
        let me = st.opener.min(1);
        let key = (me, st.host(t), st.port);
        let tries = connects_by_host.get(&key).map(|v| v.len()).unwrap_or(0);
        let same_key = plan.streams.iter().enumerate().filter(|(u, x)| x.opener.min(1) == me && x.host(*u) == key.1 && x.port == key.2).count();
        match &s.open_ret {
            Some((_, Ok(()))) => {
                // requests with identical (host, port) from one endpoint are interchangeable: compare counts
                let group: Vec<usize> = plan.streams.iter().enumerate().filter(|(u, x)| x.opener.min(1) == me && x.host(*u) == key.1 && x.port == key.2).map(|(u, _)| u).collect();
                let ok_opens = group.iter().filter(|u| matches!(led.streams[**u].open_ret, Some((_, Ok(()))))).count();
                let accepts = group.iter().filter(|u| led.streams[**u].sides[1].got_stream.is_some()).count();
                if accepts < ok_opens {
                    o.violate("C07:no-matching-accept", format!("stream {t}: {ok_opens} new_stream_channel call(s) for host ({} bytes) / port {} succeeded at endpoint {me} but the peer application received only {accepts} such stream(s)", key.1.len(), key.2));
                }
                if accepts > ok_opens {
                    o.violate("C07:rejected-but-accepted", format!("stream {t}: the peer application received {accepts} streams for host ({} bytes) / port {} but only {ok_opens} request(s) succeeded", key.1.len(), key.2));
                }
                o.probe("open-succeeded", 1);
                if tries > 1 && same_key == 1 {
                    o.probe("open-succeeded-after-retry", 1);
                }
            }
            Some((_, Err(e))) if e.contains("FlowIdRejected") => {
                o.probe("flow-id-rejected", 1);
                if same_key == 1 && tries != plan.eps[me].retries {
                    o.violate("C07:retry-count", format!("stream {t}: FlowIdRejected after {tries} Connect frames, max_flow_id_retries = {}", plan.eps[me].retries));
                }
                if same_key == 1 && s.sides[1].got_stream.is_some() {
                    o.violate("C07:rejected-but-accepted", format!("stream {t}: the requester got FlowIdRejected but the peer application received a stream for it"));
                }
            }
            Some((_, Err(e))) => o.violate("C07:open-error", format!("stream {t}: new_stream_channel failed with {e} on a live connection")),
            None => {
                if s.open_inv.is_some() {
                    o.violate("C07:open-unresolved", format!("stream {t}: new_stream_channel at endpoint {me} still pending at quiescence"));
                }
            }
        }
        if same_key == 1 && tries > plan.eps[me].retries {
            o.violate("C07:retry-count", format!("stream {t}: {tries} Connect frames for one request, max_flow_id_retries = {}", plan.eps[me].retries));
        }
        // initial send credit = the window the other side advertised (behavioural): exactly that many
        // one-byte writes complete against a peer that never reads
        if same_key == 1 && matches!(s.open_ret, Some((_, Ok(())))) && s.sides[1].got_stream.is_some() {
            for side in 0..2 {
                let ep = if side == 0 { me } else { 1 - me };
                let done = s.sides[side].writes.iter().filter(|w| matches!(w.res, Some(Ok(1)))).count() as u32;
                let want = plan.eps[1 - ep].rwnd.min(20);
                if done != want {
                    o.violate("C07:initial-credit", format!("stream {t}: endpoint {ep} completed {done} writes against a non-reading peer whose advertised window is {}", plan.eps[1 - ep].rwnd));
                }
            }
        }
    }
}
fn nt_c07(r: &DuoRun, _wm: &WireModel, _e: &EndInfo) -> bool {
    let l = r.link.lock().unwrap();
    l.evs.iter().any(|e| e.stage == Stage::Sent && matches!(&*e.w, Wire::Frame(RFrame::Reset { .. })))
}
pub fn c07() -> Check {
    let c = duo_check(
        "C07",
        "exploration",
        vec![fam("crossing-opens", 300000, 3_000_000, gen_c07, OracleCfg { accountant: false, ..OracleCfg::default() }, Some(x_c07), nt_c07, "scripted flow-id RNGs on both sides draw from {0..k}, k in 2..6 (zero, live ids and the peer's simultaneous choice all occur); 1-4 concurrent new_stream_channel calls per side; hosts of 0..300 arbitrary bytes, all ports; max_flow_id_retries in {1,2,3,5}; every established stream is kept open to the end. Oracle: each successful request <-> exactly one accepted stream with the same host bytes and port (ghost or missing accepts flagged); Connect never carries id 0 or an id pending/live at its sender; Connect.rwnd / handshake Acknowledge = configured windows; exactly `peer rwnd` writes complete against a non-reading peer on both sides; FlowIdRejected exactly after max_flow_id_retries Connects. Non-trivial: at least one Reset (rejected proposal) crossed the wire.")],
        vec!["connect-collision-with-live-or-pending-id", "open-succeeded-after-retry", "flow-id-rejected", "id-proposed-again-while-the-peer-holds-a-half-closed-stream", "half-closed-id-rejected"],
    );
    let mut c = c;
    c.families.push(fam("half-closed-reuse", 60_000, 1_000_000, gen_c07_half_closed, OracleCfg::default(), Some(x_c07_half_closed), nt_c07, "endpoint 0 opens a stream under a scripted id X, writes a little, finishes its direction properly and drops its object (its slot is free again); endpoint 1's application reads to the end and keeps its object - its slot is half-closed (in a third of the runs it finishes its own direction too: then the flow is closed and the id free, whatever it still holds) - and may write to it later. Endpoint 0 then opens a second stream and its generator proposes X again (then fresh ids). Oracle: while endpoint 1 has not finished its direction that Connect is answered with Reset, not Acknowledge (the id is in use at endpoint 1), the request succeeds under a fresh id, and the general clauses hold for the new stream (content, no cross-talk, end-of-stream) and for the old one."));
    c.families.push(Box::new(C07RawFamily));
    c
}

// ------------------------------------------------------------------ C08

const CHAOS: Prof = Prof { max_writes: 10, max_size: 24, p_empty: 50, p_vectored: 200, p_flush: 50, p_yield: 250, p_shutdown: 600, p_write_after_shutdown: 100, p_drop_mid: 100, p_read_eof: 650, p_fill: 300, p_reader_absent: 150, hold: 350, max_buf: 32 };
fn gen_c08_workload(r: &mut Prng) -> Plan {
    let mut p = base_plan(r);
    for e in &mut p.eps {
        e.stream_buf = *r.pick(&[1usize, 2, 16]);
        // with one attempt, a request pending at the end is on its last attempt
        e.retries = *r.pick(&[1usize, 3]);
    }
    for _ in 0..(1 + r.below(3)) {
        p.streams.push(gen_stream(r, &CHAOS));
    }
    // pending multiplexor-level calls on both sides: accept, get_datagram, bind request, bind responder
    for ep in 0..2 {
        if !r.chance(1, 5) {
            p.dg_rx.push(DgRx { ep, pace: vec![r.below(3)], take: None });
        }
        if r.chance(1, 2) {
            let mut tx = gen_dgtx(r, ep, 5, 0);
            for it in &mut tx.items {
                it.hlen = it.hlen.min(255);
            }
            p.dg_tx.push(tx);
        }
    }
    if r.chance(2, 3) {
        gen_binds(r, &mut p, 3);
    }
    // both applications keep accepting (possibly slowly): a peer whose connection task is wedged
    // behind an application that never accepts cannot answer Close and is outside C08's premise
    p.accept_pace = r.below(4);
    p.late_ops = r.chance(1, 2);
    // keepalive off, but a timeout value left in the options (penguin's `--keepalive 0` keeps the
    // default `--keepalive-timeout`): without an interval the timeout must mean nothing
    for e in &mut p.eps {
        if r.chance(1, 4) {
            e.keepalive_ms = [0, *r.pick(&[1u64, 10, 100, 1000])];
        }
    }
    p
}
fn gen_end_cause(r: &mut Prng) -> FaultKind {
    match r.below(11) {
        10 => FaultKind::AbortTask { ep: r.below(2) },
        0 => FaultKind::PeerClose { to: r.below(2) },
        1 => FaultKind::Cut { from: r.below(2), sink_err: false, src: 1 + r.below(2) as u8, drop_inflight: r.chance(1, 2) },
        2 => FaultKind::Cut { from: r.below(2), sink_err: true, src: 1 + r.below(2) as u8, drop_inflight: r.chance(1, 2) },
        3 => FaultKind::Cut { from: r.below(2), sink_err: true, src: 0, drop_inflight: false },
        4 => FaultKind::Cut { from: r.below(2), sink_err: true, src: 3, drop_inflight: r.chance(1, 2) },
        5 => FaultKind::CutBoth { src: 1 + r.below(3) as u8, drop_inflight: r.chance(1, 2) },
        6 => FaultKind::Garbage { to: r.below(2), kind: r.below(6) as u8 },
        _ => FaultKind::DropMux { ep: r.below(2) },
    }
}
/// the failing endpoint's own application does not accept streams: its accept backlog is full and
/// further Connects are in flight when its transport fails; its other pending calls must still resolve
fn gen_c08_backlog(r: &mut Prng, _i: u64, _t: Tier) -> Plan {
    let mut p = base_plan(r);
    let x = r.below(2);
    p.accept[x] = false;
    p.eps[x].stream_buf = 1 + r.below(2);
    p.link.latency_ms = 0;
    for _ in 0..(2 + r.below(4)) {
        let mut s = gen_stream(r, &CHAOS);
        s.opener = 1 - x;
        s.delay = r.below(4);
        p.streams.push(s);
    }
    // the failing endpoint's own stream with a parked reader
    let mut own = gen_stream(r, &CHAOS);
    own.opener = x;
    own.delay = 0;
    own.sides[0].r = vec![ROp::ReadEof { buf: 8 }];
    own.sides[0].hold = true;
    own.sides[1].hold = true;
    p.streams.push(own);
    p.dg_rx.push(DgRx { ep: x, pace: vec![0], take: None });
    let kind = match r.below(4) {
        0 => FaultKind::Cut { from: x, sink_err: true, src: 0, drop_inflight: false },
        1 => FaultKind::Cut { from: x, sink_err: true, src: 3, drop_inflight: false },
        2 => FaultKind::Garbage { to: x, kind: r.below(6) as u8 },
        _ => FaultKind::Cut { from: 1 - x, sink_err: false, src: 1, drop_inflight: false },
    };
    let at = r.below(50) as u64;
    p.faults.push(Fault { at, kind });
    p
}
fn gen_c08(r: &mut Prng, _i: u64, _t: Tier) -> Plan {
    let mut p = gen_c08_workload(r);
    let kind = gen_end_cause(r);
    let span = *r.pick(&[12usize, 40, 120, 400]);
    let at = r.below(span) as u64;
    // the application lets go of its multiplexor and the task's future is dropped right after,
    // before it is polled again (two locals of a function that returns early)
    if let FaultKind::AbortTask { ep } = kind {
        if r.chance(1, 2) {
            p.faults.push(Fault { at, kind: FaultKind::DropMux { ep } });
        }
    }
    p.faults.push(Fault { at, kind });
    p
}
const C08_STRIDE: u64 = 384;
/// crash-point sweep: plan, schedule seed and end cause are fixed per group of C08_STRIDE indices,
/// the trigger step walks over every scheduling round of that execution
fn gen_c08_sweep(r: &mut Prng, i: u64, _t: Tier) -> Plan {
    let mut p = gen_c08_workload(r);
    // keep the recorded execution short enough for the sweep to cover all of it
    p.streams.truncate(2);
    for s in &mut p.streams {
        for sd in &mut s.sides {
            sd.w.truncate(6);
        }
    }
    p.link.latency_ms = 0;
    let kind = gen_end_cause(r);
    if let FaultKind::AbortTask { ep } = kind {
        if r.chance(1, 2) {
            p.faults.push(Fault { at: i % C08_STRIDE, kind: FaultKind::DropMux { ep } });
        }
    }
    p.faults.push(Fault { at: i % C08_STRIDE, kind });
    p
}
fn x_c08(r: &DuoRun, wm: &WireModel, ei: &EndInfo, o: &mut Outcome) {
    let led = r.led.borrow();
    let l = r.link.lock().unwrap();
    // ---- what was pending at the instant of the end cause
    if let Some(fs) = ei.first_fault_seq {
        let mut pend = 0u64;
        for s in &led.streams {
            for sd in &s.sides {
                if sd.writes.iter().any(|w| w.inv < fs && w.ret.is_none_or(|t| t > fs)) {
                    pend += 1;
                    o.probe("end-while-writer-parked", 1);
                }
                if sd.reads.is_empty() && sd.got_stream.is_some_and(|g| g < fs) || sd.in_read.is_some_and(|q| q < fs) {
                    o.probe("end-while-reader-pending", 1);
                }
            }
            if s.open_inv.is_some_and(|q| q < fs) && s.open_ret.as_ref().is_none_or(|x| x.0 > fs) {
                pend += 1;
                o.probe("end-while-open-pending", 1);
            }
        }
        for (k, b) in led.bind.reqs.iter().enumerate() {
            if b.0 > 0 && b.0 < fs && led.bind.results[k].as_ref().is_none_or(|x| x.0 > fs) {
                pend += 1;
                o.probe("end-while-bind-pending", 1);
            }
        }
        o.probe("end-with-pending-operations", (pend > 0) as u64);
    }
    // ---- local drop with a healthy transport: everything queued before the drop is still transmitted
    let only_drop = r.plan.faults.len() == 1 && matches!(r.plan.faults[0].kind, FaultKind::DropMux { .. });
    if !only_drop {
        return;
    }
    for x in 0..2 {
        let Some(d) = led.mux_dropped[x] else { continue };
        let Some(close) = wm.close_sent[x] else {
            o.violate("C08:no-close-after-drop", format!("endpoint {x}: the multiplexor was dropped (seq {d}) on a healthy transport but no Close was ever sent"));
            continue;
        };
        // the peer may have ended the connection first (it cannot here: only the drop is injected)
        for (t, s) in led.streams.iter().enumerate() {
            let opener = r.plan.streams[t].opener.min(1);
            for side in 0..2 {
                let ep = if side == 0 { opener } else { 1 - opener };
                if ep != x {
                    continue;
                }
                let Some(&ix) = wm.by_tag.get(&t) else { continue };
                let id = wm.insts[ix].id;
                let c0 = wm.insts[ix].connect_seq;
                let sd = &s.sides[side];
                let need: u64 = sd.writes.iter().filter(|w| w.ret.is_some_and(|q| q < d)).filter_map(|w| w.res.as_ref().and_then(|r| r.as_ref().ok())).map(|k| *k as u64).sum();
                let sent: u64 = l.evs.iter().filter(|e| e.stage == Stage::Sent && e.from == x && e.seq < close && e.seq >= c0).filter_map(|e| match &*e.w { Wire::Frame(RFrame::Push { id: i, data }) if *i == id => Some(data.len() as u64), _ => None }).sum();
                let was_reset = wm.insts[ix].reset_consumed[x].is_some_and(|q| q < close);
                if sent < need && !was_reset {
                    o.violate("C08:flush-lost-data", format!("endpoint {x} dropped its multiplexor (seq {d}) after writes on stream {t} had accepted {need} bytes, but only {sent} bytes were transmitted before Close"));
                }
                if sd.shutdown_ret.is_some_and(|q| q < d) && !was_reset {
                    let fin = l.evs.iter().any(|e| e.stage == Stage::Sent && e.from == x && e.seq < close && e.seq >= c0 && matches!(&*e.w, Wire::Frame(RFrame::Finish { id: i }) if *i == id));
                    if !fin {
                        o.violate("C08:flush-lost-finish", format!("endpoint {x} dropped its multiplexor after shutdown of stream {t} had completed, but no Finish was transmitted before Close"));
                    }
                }
                if sd.aborted && sd.dropped.is_some_and(|q| q < d) && !was_reset && wm.insts[ix].est_sent.is_some() {
                    let rst = l.evs.iter().any(|e| e.stage == Stage::Sent && e.from == x && e.seq < close && e.seq >= c0 && matches!(&*e.w, Wire::Frame(RFrame::Reset { id: i }) if *i == id));
                    // the abort notification is processed by the connection task; it is queued before the drop signal
                    if !rst && wm.insts[ix].finish_sent[x].is_none() {
                        o.violate("C08:flush-lost-reset", format!("endpoint {x} dropped its multiplexor after stream {t} had been aborted, but no Reset was transmitted before Close"));
                    }
                }
            }
        }
        let need = led.dg.sent[x].iter().filter(|s| s.0 < d && s.2.is_ok()).count();
        let sent = l.evs.iter().filter(|e| e.stage == Stage::Sent && e.from == x && e.seq < close && matches!(&*e.w, Wire::Frame(RFrame::Datagram { .. }))).count();
        if sent < need {
            o.violate("C08:flush-lost-datagram", format!("endpoint {x} dropped its multiplexor after {need} datagrams had been accepted, but only {sent} were transmitted before Close"));
        }
        o.probe("drop-flush-checked", 1);
        if need > 0 || led.streams.iter().any(|s| s.sides.iter().any(|sd| sd.accepted > 0)) {
            o.probe("drop-with-queued-frames", 1);
        }
    }
}
/// the end cause "the keepalive expires": the link goes silent (one or both directions swallow
/// what is sent, nothing fails), so only the endpoints' own keepalive can end the connection
fn gen_c08_keepalive(r: &mut Prng, _i: u64, _t: Tier) -> Plan {
    let mut p = gen_c08_workload(r);
    p.link.latency_ms = *r.pick(&[0u64, 0, 5]);
    let both = r.chance(2, 3);
    let on = r.below(2);
    for (x, e) in p.eps.iter_mut().enumerate() {
        if both || x == on {
            let iv = *r.pick(&[200u64, 500, 1000]);
            e.keepalive_ms = [iv, iv * *r.pick(&[1u64, 2])];
        }
    }
    let span = *r.pick(&[12usize, 40, 120, 400]);
    let at = r.below(span) as u64;
    let drop_inflight = r.chance(1, 2);
    match r.below(3) {
        0 => {
            for from in 0..2 {
                p.faults.push(Fault { at, kind: FaultKind::Cut { from, sink_err: false, src: 3, drop_inflight } });
            }
        }
        k => p.faults.push(Fault { at, kind: FaultKind::Cut { from: k - 1, sink_err: false, src: 3, drop_inflight } }),
    }
    // with keepalive on both sides, in half of the runs the link goes silent around an orderly
    // end: the local handle is dropped, or the peer's Close arrives, and the other side is never
    // heard of again (without keepalive nothing can tell a dead peer from a slow one)
    if both && r.chance(1, 2) {
        let at2 = (at + r.below(30) as u64).saturating_sub(15);
        let kind = if r.chance(1, 2) { FaultKind::DropMux { ep: r.below(2) } } else { FaultKind::PeerClose { to: r.below(2) } };
        p.faults.push(Fault { at: at2, kind });
    }
    p.horizon_ms = 60_000;
    p
}
fn x_c08_keepalive(r: &DuoRun, wm: &WireModel, ei: &EndInfo, o: &mut Outcome) {
    // the family's space (the minimiser must not leave it): silent cuts only, keepalive periods
    // far above the round trip of the link, a timeout not below the interval
    let lat = r.plan.link.latency_ms.max(1);
    let in_space = r.plan.faults.iter().all(|f| matches!(f.kind, FaultKind::Cut { sink_err: false, src: 3, .. } | FaultKind::DropMux { .. } | FaultKind::PeerClose { .. })) && r.plan.faults.iter().any(|f| matches!(f.kind, FaultKind::Cut { .. })) && r.plan.eps.iter().all(|e| e.keepalive_ms[0] == 0 || (e.keepalive_ms[0] >= 20 * lat && e.keepalive_ms[1] >= e.keepalive_ms[0]));
    let orderly_end = r.plan.faults.iter().any(|f| !matches!(f.kind, FaultKind::Cut { .. }));
    if !in_space || (orderly_end && r.plan.eps.iter().any(|e| e.keepalive_ms[0] == 0)) {
        o.violations.clear();
        return;
    }
    x_c08(r, wm, ei, o);
    if orderly_end {
        o.probe("silent-link-around-orderly-end", 1);
    }
    if !ei.any_fault {
        return;
    }
    let led = r.led.borrow();
    for x in 0..2 {
        if r.plan.eps[x].keepalive_ms[0] == 0 {
            continue;
        }
        // its pings or the pongs to them are swallowed from the cut on: the keepalive expires -
        // provided the run went on for T + 2 I after the cut (the cut is placed by scheduling
        // round, and with little traffic a late round can lie just before the horizon)
        o.probe("silent-link-under-keepalive", 1);
        let (iv, t) = (r.plan.eps[x].keepalive_ms[0], r.plan.eps[x].keepalive_ms[1]);
        let cut_by = ei.first_fault_seq.and_then(|fs| r.link.lock().unwrap().evs.iter().find(|e| e.seq > fs).map(|e| e.t.as_millis() as u64));
        let long_enough = cut_by.is_some_and(|c| r.sim_ms >= c + t + 2 * iv + 50);
        match &led.task_end[x] {
            None if !long_enough => o.probe("cut-too-close-to-the-horizon", 1),
            None => o.violate("C08:not-ended-by-keepalive", format!("endpoint {x} has keepalive on (interval {} ms, timeout {} ms) and the link went silent (seq {:?}), but its connection task never ended (the run ended {:?} at {} ms, the cut happened by {:?} ms; still running: {:?})", r.plan.eps[x].keepalive_ms[0], r.plan.eps[x].keepalive_ms[1], ei.first_fault_seq, r.end, r.sim_ms, cut_by, r.unfinished)),
            Some(t) => {
                if format!("{t:?}").contains("KeepaliveTimeout") {
                    o.probe("ended-by-keepalive-expiry", 1);
                }
            }
        }
    }
}
/// the local handle is dropped with a backlog that takes the link many message times to carry
/// (a link with room for 1-2 messages, 5-50 ms each), with and without keepalive, at one endpoint
/// or at both: everything queued before the drop still goes out, and everybody comes to an end
fn gen_c08_backlog_drop(r: &mut Prng, _i: u64, _t: Tier) -> Plan {
    let mut p = gen_c08_workload(r);
    p.link.window = 1 + r.below(2);
    p.link.latency_ms = *r.pick(&[5u64, 20, 50]);
    p.link.bp_flush = r.chance(1, 2);
    let x = r.below(2);
    let both_drop = r.chance(1, 3);
    // keepalive: nowhere, everywhere, or only at the endpoint that keeps its handle
    let ka = r.below(3);
    let iv = p.link.latency_ms * *r.pick(&[20u64, 40]);
    let t = iv * *r.pick(&[1u64, 2]);
    for (i, e) in p.eps.iter_mut().enumerate() {
        if ka == 1 || (ka == 2 && i != x) {
            e.keepalive_ms = [iv, t];
        }
    }
    let droppers: Vec<usize> = if both_drop { vec![x, 1 - x] } else { vec![x] };
    for ep in &droppers {
        let n = 40 + r.below(80);
        let items = (0..n).map(|_| DgItem { flow: r.next() as u32, hlen: r.below(10), port: r.next() as u16, len: r.below(40), yields: 0 }).collect();
        p.dg_tx.push(DgTx { from: *ep, items });
    }
    // the peers' applications keep taking datagrams
    p.dg_rx.clear();
    for ep in 0..2 {
        p.dg_rx.push(DgRx { ep, pace: vec![0], take: None });
    }
    let at = 150 + r.below(300) as u64;
    for (k, ep) in droppers.iter().enumerate() {
        p.faults.push(Fault { at: at + (k * r.below(12)) as u64, kind: FaultKind::DropMux { ep: *ep } });
    }
    p.horizon_ms = 120_000;
    p
}
fn x_c08_backlog_drop(r: &DuoRun, wm: &WireModel, ei: &EndInfo, o: &mut Outcome) {
    let lat = r.plan.link.latency_ms.max(1);
    let in_space = !r.plan.faults.is_empty() && r.plan.faults.iter().all(|f| matches!(f.kind, FaultKind::DropMux { .. })) && r.plan.eps.iter().all(|e| e.keepalive_ms[0] == 0 || (e.keepalive_ms[0] >= 20 * lat && e.keepalive_ms[1] >= e.keepalive_ms[0]));
    if !in_space {
        o.violations.clear();
        return;
    }
    x_c08(r, wm, ei, o);
    let led = r.led.borrow();
    let backlog = led.dg.sent.iter().map(|v| v.len()).max().unwrap_or(0);
    if ei.any_fault && backlog >= 20 {
        o.probe("drop-with-long-backlog", 1);
        if r.plan.faults.len() > 1 {
            o.probe("both-handles-dropped-with-backlog", 1);
        }
        if r.plan.eps.iter().any(|e| e.keepalive_ms[0] > 0) {
            o.probe("drop-with-long-backlog-under-keepalive", 1);
        }
        if r.plan.faults.iter().any(|f| matches!(f.kind, FaultKind::DropMux { ep } if r.plan.eps[ep.min(1)].keepalive_ms[0] == 0 && r.plan.eps[ep.min(1)].keepalive_ms[1] > 0 && r.plan.eps[ep.min(1)].keepalive_ms[1] <= lat)) {
            o.probe("drop-with-long-backlog-timeout-without-interval", 1);
        }
    }
}
/// the local handle is dropped with a backlog and, while the queue is being flushed, the endpoint's
/// own Sink starts failing (the transport breaks in the outgoing direction; the peer is not told):
/// the connection has ended for that endpoint, its task, streams and calls must come to an end
fn gen_c08_drop_then_sink_failure(r: &mut Prng, i: u64, t: Tier) -> Plan {
    let mut p = gen_c08_backlog_drop(r, i, t);
    p.faults.truncate(1);
    let (at, x) = match &p.faults[0] {
        Fault { at, kind: FaultKind::DropMux { ep } } => (*at, *ep),
        _ => unreachable!(),
    };
    p.dg_tx.retain(|d| d.from == x);
    // the peer's direction stays as it is (it hears nothing of the failure), goes silent, or fails too
    let src = *r.pick(&[0u8, 0, 3, 1]);
    p.faults.push(Fault { at: at + r.below(120) as u64, kind: FaultKind::Cut { from: x, sink_err: true, src, drop_inflight: r.chance(1, 2) } });
    p
}
fn x_c08_drop_then_sink_failure(r: &DuoRun, wm: &WireModel, ei: &EndInfo, o: &mut Outcome) {
    let lat = r.plan.link.latency_ms.max(1);
    let dropper = r.plan.faults.iter().find_map(|f| if let FaultKind::DropMux { ep } = f.kind { Some(ep) } else { None });
    let in_space = r.plan.faults.len() == 2
        && dropper.is_some()
        && r.plan.faults.iter().any(|f| matches!(f.kind, FaultKind::Cut { from, sink_err: true, .. } if Some(from) == dropper))
        && r.plan.eps.iter().all(|e| e.keepalive_ms[0] == 0 || (e.keepalive_ms[0] >= 20 * lat && e.keepalive_ms[1] >= e.keepalive_ms[0]));
    if !in_space {
        o.violations.clear();
        return;
    }
    let x = dropper.unwrap().min(1);
    // a failure the endpoint cannot observe (its queue had gone out before the Sink broke, what is
    // lost is lost in flight) is a silent link: without keepalive nothing can tell a dead peer
    // from a slow one, and the wait for the peer's Close has no bound the property could name
    if !r.link.lock().unwrap().sink_err_seen[x] && r.plan.eps[x].keepalive_ms[0] == 0 {
        o.violations.clear();
        o.probe("sink-failure-not-observable", 1);
        return;
    }
    x_c08(r, wm, ei, o);
    let led = r.led.borrow();
    let cut = r.fired.iter().find(|f| f.0.starts_with("cut:")).map(|f| f.1);
    if let (Some(d), Some(c)) = (led.mux_dropped[x], cut) {
        let flushing = c > d && led.task_end[x].as_ref().is_none_or(|e| e.0 > c);
        if flushing && r.link.lock().unwrap().sink_err_seen[x] {
            o.probe("sink-failure-during-flush", 1);
            if r.plan.eps[x].keepalive_ms[0] == 0 {
                o.probe("sink-failure-during-flush-without-keepalive", 1);
            }
        }
    }
}
/// the peer closes (its handle is dropped, or a forged Close arrives) and then the direction from
/// that peer goes silent, keepalive nowhere: the endpoint that has consumed the Close knows that
/// the connection has ended - its calls must resolve without the transport saying so once more
/// (a WebSocket client waits for the server to close the transport after the closing handshake)
fn gen_c08_close_then_silence(r: &mut Prng, _i: u64, _t: Tier) -> Plan {
    let mut p = gen_c08_workload(r);
    p.link.latency_ms = *r.pick(&[0u64, 0, 5]);
    let x = r.below(2);
    let span = *r.pick(&[12usize, 40, 120, 400]);
    let at = r.below(span) as u64;
    // (or what reaches it is a message that is not a frame: the connection ends there and then,
    // whatever the peer does or does not do afterwards)
    let kind = match r.below(5) {
        0 | 1 => FaultKind::DropMux { ep: 1 - x },
        2 | 3 => FaultKind::PeerClose { to: x },
        _ => FaultKind::Garbage { to: x, kind: r.below(6) as u8 },
    };
    p.faults.push(Fault { at, kind });
    p.faults.push(Fault { at: at + r.below(40) as u64, kind: FaultKind::Cut { from: 1 - x, sink_err: false, src: 3, drop_inflight: false } });
    if r.chance(2, 3) {
        p.link.ws_client = (x + 1) as u8;
    }
    // a third of the runs: the endpoint that is about to hear the Close has itself dropped its handle
    // a moment before, with a backlog on a slow link - the peer's Close reaches it while it is still
    // flushing its queue
    if r.chance(1, 3) {
        p.link.window = 1 + r.below(2);
        p.link.latency_ms = *r.pick(&[5u64, 20, 50]);
        p.link.bp_flush = r.chance(1, 2);
        let n = 40 + r.below(80);
        let items = (0..n).map(|_| DgItem { flow: r.next() as u32, hlen: r.below(10), port: r.next() as u16, len: r.below(40), yields: 0 }).collect();
        p.dg_tx.push(DgTx { from: x, items });
        p.dg_rx.retain(|d| d.ep != 1 - x);
        p.dg_rx.push(DgRx { ep: 1 - x, pace: vec![0], take: None });
        let t0 = 150 + r.below(300) as u64;
        let t1 = t0 + r.below(60) as u64;
        p.faults.clear();
        p.faults.push(Fault { at: t0, kind: FaultKind::DropMux { ep: x } });
        p.faults.push(Fault { at: t1, kind: if r.chance(1, 2) { FaultKind::DropMux { ep: 1 - x } } else { FaultKind::PeerClose { to: x } } });
        p.faults.push(Fault { at: t1 + r.below(60) as u64, kind: FaultKind::Cut { from: 1 - x, sink_err: false, src: 3, drop_inflight: false } });
    }
    p
}
fn x_c08_close_then_silence(r: &DuoRun, wm: &WireModel, ei: &EndInfo, o: &mut Outcome) {
    // the silent direction is the one from the closing side: exactly one silent cut, and the
    // endpoint at its receiving end is sent a Close (the peer drops its handle, or a forged one);
    // that endpoint may have dropped its own handle before
    let cuts: Vec<usize> = r.plan.faults.iter().filter_map(|f| if let FaultKind::Cut { from, sink_err: false, src: 3, drop_inflight: false } = f.kind { Some(from.min(1)) } else { None }).collect();
    let closer = if cuts.len() == 1 { Some(cuts[0]) } else { None };
    let in_space = closer.is_some()
        && r.plan.faults.iter().all(|f| matches!(f.kind, FaultKind::Cut { sink_err: false, src: 3, drop_inflight: false, .. } | FaultKind::DropMux { .. } | FaultKind::PeerClose { .. } | FaultKind::Garbage { .. }))
        && r.plan.faults.iter().any(|f| matches!(f.kind, FaultKind::DropMux { ep } if Some(ep.min(1)) == closer) || matches!(f.kind, FaultKind::PeerClose { to } if Some(1 - to.min(1)) == closer) || matches!(f.kind, FaultKind::Garbage { to, .. } if Some(1 - to.min(1)) == closer))
        && r.plan.eps.iter().all(|e| e.keepalive_ms[0] == 0);
    if !in_space {
        o.violations.clear();
        return;
    }
    let x = 1 - closer.unwrap();
    let cut = r.fired.iter().find(|f| f.0.starts_with("cut:")).map(|f| f.1);
    // the Close itself was swallowed by the silence (or never sent): a dead link without
    // keepalive, nobody can know that the connection has ended
    let garbage = r.plan.faults.iter().any(|f| matches!(f.kind, FaultKind::Garbage { .. }));
    let heard = if garbage { wm.garbage_consumed[x].is_some() } else { wm.close_consumed[x].is_some() };
    if cut.is_some() && !heard {
        o.violations.clear();
        o.probe("close-lost-in-the-silence", 1);
        return;
    }
    x_c08(r, wm, ei, o);
    if cut.is_some() && garbage {
        o.probe("invalid-frame-then-silence", 1);
    }
    if cut.is_some() && wm.close_consumed[x].is_some() {
        o.probe("close-then-silence", 1);
        if r.plan.link.ws_client as usize == x + 1 {
            o.probe("close-then-silence-at-the-websocket-client", 1);
        }
        let led = r.led.borrow();
        if let (Some(d), Some(c)) = (led.mux_dropped[x], wm.close_consumed[x]) {
            if d < c && led.task_end[x].as_ref().is_none_or(|e| e.0 > c) {
                o.probe("peer-close-while-flushing-after-own-drop", 1);
            }
        }
    }
}
fn nt_c08(r: &DuoRun, _wm: &WireModel, ei: &EndInfo) -> bool {
    ei.any_fault && (ei.judged[0] || ei.judged[1]) && r.steps > 20
}
pub fn c08() -> Check {
    let sweep = DuoFamily { name: "sweep", quick: 40 * C08_STRIDE, thorough: 2000 * C08_STRIDE, generate: gen_c08_sweep, cfg: OracleCfg::default(), extra: Some(x_c08), nontrivial: nt_c08, rule: "crash-point sweep: for each group, one plan + one schedule seed + one end cause are fixed and the trigger walks over every scheduling round 0..383 of that execution (rounds beyond the end of the execution leave it fault-free).", exhaustive_thorough: false, stride: C08_STRIDE };
    duo_check(
        "C08",
        "fault_enumeration",
        vec![
            fam("chaos", 300_000, 3_000_000, gen_c08, OracleCfg::default(), Some(x_c08), nt_c08, "random close/abort workload on 1-3 streams with pending accept / get_datagram / request_bind / next_bind_request / open / parked writers and readers; at a seeded scheduling round one end cause fires: forged peer Close, cut of one direction (source error / EOF / silent, sink failing or not, in-flight dropped or delivered), both directions cut, invalid frame (6 kinds), or the local Multiplexor handle dropped. Judged per endpoint whose connection has ended: its task returned and no call is pending at quiescence; after a local drop on a healthy link every frame whose producing call returned before the drop is on the wire before Close, per producer in order. Non-trivial: the end cause fired after >20 steps and reached an endpoint."),
            Box::new(sweep),
            fam("backlog", 100_000, 2_000_000, gen_c08_backlog, OracleCfg::default(), Some(x_c08), nt_c08, "the endpoint whose transport fails (sink error with a live or silent source, invalid frame, source error) runs no acceptor: its accept backlog (1-2 slots) is full and further Connect frames of the peer are in flight or buffered when the failure hits; its parked reader, get_datagram and open calls must still resolve and its task must return."),
            fam("drop-with-backlog", 30_000, 400_000, gen_c08_backlog_drop, OracleCfg::default(), Some(x_c08_backlog_drop), nt_c08, "the chaos workload plus a burst of 40-120 datagrams at the endpoint(s) about to drop their Multiplexor handle, on a link with room for 1-2 messages that takes 5-50 ms per message (back-pressure in poll_ready or, like tungstenite, in poll_flush), keepalive nowhere / everywhere / only at the endpoint that keeps its handle (interval 20-40 message times); one handle is dropped, or both within a few rounds. Judged: the general clauses (every task returns, nothing pending at quiescence) and, when one handle is dropped, the flush clauses: every datagram, byte, Finish and Reset accepted before the drop is on the wire before Close."),
            fam("drop-then-sink-failure", 30_000, 400_000, gen_c08_drop_then_sink_failure, OracleCfg::default(), Some(x_c08_drop_then_sink_failure), nt_c08, "the drop-with-backlog workload with one handle dropped; within the next 0-120 scheduling rounds - typically while the queue is still being flushed - that endpoint's own Sink starts failing (outgoing direction broken; the peer's direction unchanged, silent or failing as well; messages in flight lost or not), keepalive nowhere / everywhere / only at the peer. Judged by the general clauses: the failing endpoint's task returns, the streams its application still holds and every pending call come to an end at quiescence."),
            fam("close-then-silence", 40_000, 600_000, gen_c08_close_then_silence, OracleCfg::default(), Some(x_c08_close_then_silence), nt_c08, "the chaos workload without keepalive; one endpoint's handle is dropped (or a forged Close, or a message that is not a frame, arrives at the other; in a third of the runs that other endpoint has itself dropped its handle a moment before, with a backlog on a slow link) and 0-40 scheduling rounds later the direction from the closing side goes silent - nothing fails, nothing more arrives, not even the end of the transport a WebSocket client waits for after the closing handshake. The endpoint that has consumed the peer's Close is judged by the general clauses: its task returns and nothing is pending at quiescence. Runs in which the silence swallowed the Close itself are not judged (nobody can know)."),
            fam("keepalive-expiry", 40_000, 600_000, gen_c08_keepalive, OracleCfg::default(), Some(x_c08_keepalive), nt_c08, "the chaos workload with keepalive on at one or both endpoints (interval 200-1000 ms, timeout 1-2 intervals) on a link that goes silent at a seeded scheduling round: one or both directions swallow what is sent from then on, no operation of the transport fails. Every endpoint with keepalive on must end (its pings or the pongs to them are lost), and from then on the general clauses apply: its task returned, no call pending at quiescence, reads drain then end, writes fail. Non-trivial as in chaos."),
        ],
        vec!["late-call-after-end", "end-with-pending-operations", "end-while-writer-parked", "end-while-open-pending", "end-while-bind-pending", "drop-with-queued-frames", "silent-link-under-keepalive", "ended-by-keepalive-expiry", "silent-link-around-orderly-end", "drop-with-long-backlog", "both-handles-dropped-with-backlog", "drop-with-long-backlog-under-keepalive", "drop-with-long-backlog-timeout-without-interval", "sink-failure-during-flush", "sink-failure-during-flush-without-keepalive", "close-then-silence", "close-then-silence-at-the-websocket-client", "peer-close-while-flushing-after-own-drop", "invalid-frame-then-silence", "fault:cut", "fault:peer-close", "fault:garbage", "fault:drop-mux"],
    )
}
use crate::link::{Stage, Wire};
use crate::refcodec::RFrame;

pub fn lookup(id: &str) -> Option<Check> {
    match id {
        "C02" => Some(c02()),
        "C03" => Some(c03()),
        "C04" => Some(c04()),
        "C05" => Some(c05()),
        "C06" => Some(c06()),
        "C07" => Some(c07()),
        "C08" => Some(c08()),
        "C10" => Some(c10()),
        "C11" => Some(c11()),
        "C13" => Some(c13()),
        "C15" => Some(c15()),
        "C16" => Some(c16()),
        "C18" => Some(c18()),
        _ => None,
    }
}

// ================================================================== raw-peer families (C10, C13, C16)

use crate::solo::*;

pub struct C10Family {
    pub name: &'static str,
    pub quick: u64,
    pub thorough: u64,
    /// enumerate all single frames and ordered pairs by index
    pub enumerate: bool,
}
fn c10_base(r: &mut Prng) -> C10Plan {
    C10Plan {
        ep: EpCfg { rwnd: *r.pick(&[1u32, 2, 3, 4]), threshold: *r.pick(&[1u32, 2, 4]), dgram_buf: *r.pick(&[1usize, 8]), stream_buf: 16, bind_buf: *r.pick(&[0usize, 0, 8]), retries: 3, ids: vec![], keepalive_ms: [0, 0] },
        link: LinkCfg { window: *r.pick(&[2usize, 8, 1 << 20]), latency_ms: 0, drop_after_close: r.chance(1, 2), ws_client: r.below(2) as u8, bp_flush: r.chance(1, 2) },
        weights: gen_weights(r),
        peer_rwnd: *r.pick(&[1u32, 2, 4, 16]),
        seqn: vec![],
        bystander_bytes: 20 + r.below(60),
        garbage: if r.chance(1, 5) { Some(r.below(6) as u8) } else { None },
        victim_shutdown: r.chance(1, 3),
        flood: 0,
        silent_after_garbage: r.chance(1, 2),
        coop: r.chance(1, 6),
        connect_behind_garbage: r.chance(1, 3),
        drop_held: r.chance(1, 3),
    }
}
impl Family for C10Family {
    fn name(&self) -> &'static str {
        self.name
    }
    fn runs(&self, tier: Tier) -> u64 {
        if tier == Tier::Quick { self.quick } else { self.thorough }
    }
    fn generate(&self, batch_seed: u64, index: u64, _tier: Tier) -> (Value, u64) {
        let seed = simcore::prng::mix(batch_seed, self.name, index);
        let mut r = Prng::new(seed);
        let mut p = c10_base(&mut r);
        let alpha = (N_OPS as u64) * (N_IDS as u64);
        if self.name == "connect-burst" {
            // the application accepts the set-up's two streams and no more; the peer opens a burst
            p.ep.stream_buf = *r.pick(&[1usize, 2, 4]);
            p.flood = *r.pick(&[1usize, p.ep.stream_buf, p.ep.stream_buf + 1, p.ep.stream_buf + 2, p.ep.stream_buf + 8]);
            p.victim_shutdown = false;
            // with the accept backlog filled to the brim (but the task not stuck yet) the connection
            // may end on a message that is not a frame, with another Connect right behind it
            p.garbage = if p.flood <= p.ep.stream_buf && r.chance(1, 2) { Some(r.below(6) as u8) } else { None };
            p.connect_behind_garbage = p.garbage.is_some() && r.chance(2, 3);
            for _ in 0..r.below(4) {
                p.seqn.push(FOp { op: r.below(N_OPS as usize) as u8, id: r.below(N_IDS as usize) as u8, yields: r.below(5) });
            }
            return (serde_json::to_value(p).expect("plan"), seed);
        }
        if self.enumerate {
            // index -> single frame (first `alpha` indices) or ordered pair, cyclically
            let k = index % (alpha + alpha * alpha);
            let mk = |x: u64, r: &mut Prng| FOp { op: (x / N_IDS as u64) as u8, id: (x % N_IDS as u64) as u8, yields: r.below(4) };
            if k < alpha {
                p.seqn.push(mk(k, &mut r));
            } else {
                let k = k - alpha;
                p.seqn.push(mk(k / alpha, &mut r));
                p.seqn.push(mk(k % alpha, &mut r));
            }
            p.garbage = None;
        } else {
            let n = 3 + r.below(12);
            for _ in 0..n {
                // overrun needs runs of Push on the victim: bias towards them
                let (op, id) = if r.chance(1, 4) { (5, 2) } else { (r.below(N_OPS as usize) as u8, r.below(N_IDS as usize) as u8) };
                p.seqn.push(FOp { op, id, yields: r.below(5) });
            }
        }
        (serde_json::to_value(p).expect("plan"), seed)
    }
    fn exec(&self, plan: &Value, sched: &Sched, record: bool) -> Outcome {
        let Ok(plan) = serde_json::from_value::<C10Plan>(plan.clone()) else { return Outcome::default() };
        run_c10(&plan, sched, record)
    }
    fn rule(&self) -> &'static str {
        if self.name == "connect-burst" {
            return "the same endpoint, but its application accepts the two streams of the set-up and then no more (the penguin client never accepts any); the peer opens 1 ... stream_buffer_size + 8 further streams at once (stream_buffer_size 1, 2, 4), then a few random frames; bystander traffic and the liveness probe as before. Up to stream_buffer_size unaccepted streams the endpoint must keep serving; from the next one on the listed known finding applies (the task waits in the hand-over and reads nothing more).";
        }
        if self.enumerate {
            "one real endpoint, a raw peer speaking the reference codec; flows in every slot state are set up by conforming exchanges (established bystander with checked traffic both ways, established victim that is never read, endpoint-requested established flow, pending Connect, pending Bind, two unknown ids, id 0); then ALL single frames and ALL ordered pairs over {Connect, Ack(0/1/max), Reset, Finish, Push(0/1/300 B), Bind(1/3), Datagram} x those ids are enumerated by run index, under seeded schedules; followed by a liveness probe (fresh Connect acknowledged, bystander moves more data)."
        } else {
            "random sequences of 3-14 such frames (biased to runs of Push on the never-read victim: window overrun), optionally ended by a message that is not a valid frame (6 kinds): then the task must return an invalid-frame error and every pending call must resolve. Non-trivial: the fault phase completed."
        }
    }
    fn exhaustive(&self, tier: Tier) -> bool {
        self.enumerate && self.runs(tier) >= (N_OPS as u64 * N_IDS as u64) * (1 + N_OPS as u64 * N_IDS as u64)
    }
}
pub fn c10() -> Check {
    let c = c02();
    Check {
        property: "C10",
        engine: "muxsim",
        level: "fault_enumeration",
        families: vec![Box::new(C10Family { name: "pairs", quick: 9312 * 4, thorough: 9312 * 200, enumerate: true }), Box::new(C10Family { name: "sequences", quick: 150_000, thorough: 3_000_000, enumerate: false }), Box::new(C10Family { name: "connect-burst", quick: 20_000, thorough: 400_000, enumerate: false })],
        required_probes: vec!["window-overrun-by-peer", "reset-required-and-sent", "liveness-probe-run", "garbage-ended-connection", "undetermined-reaction-recorded", "connect-burst-within-the-accept-backlog", "connect-burst-beyond-the-accept-backlog"],
        assumptions: vec!["only reactions PROTOCOL.md or the statement fix are judged (Reset for Ack/Finish/Push on unknown flows, never Reset for Reset, Reset of only the offending flow on overrun, Reset for Connect with id 0 / in use, Reset for Bind when disabled); reactions left open taint that flow id and are recorded, not judged", "the in-memory link implements tokio-tungstenite's observable contract"],
        real: c.real,
        stub: vec!["the peer (scripted raw peer encoding with the reference codec)", "WebSocket transport (SimWs)", "applications (scripted)", "task scheduler (seeded executor)"],
    }
}

// ------------------------------------------------------------------ C13

pub struct C13Family;
impl Family for C13Family {
    fn name(&self) -> &'static str {
        "bridge"
    }
    fn runs(&self, tier: Tier) -> u64 {
        if tier == Tier::Quick { 300_000 } else { 5_000_000 }
    }
    fn generate(&self, batch_seed: u64, index: u64, _tier: Tier) -> (Value, u64) {
        use crate::scriptio::{Fl, R, Wr};
        let seed = simcore::prng::mix(batch_seed, "bridge", index);
        let mut r = Prng::new(seed);
        let r = &mut r;
        let rwnd = *r.pick(&[1u32, 2, 4, 8]);
        let mut rs = vec![];
        let mut huge_burst = false;
        for _ in 0..r.below(9) {
            match r.below(6) {
                0 => rs.push(R::PendWake),
                1 => {
                    rs.push(R::PendWake);
                    rs.push(R::PendWake);
                }
                _ => {}
            }
            rs.push(R::Chunk(if r.chance(1, 10) { 1 + r.below(8192) } else { 1 + r.below(40) }));
        }
        // bulk: a local side with a lot ready at once (many large chunks back to back, 64 KiB - 1 MiB
        // in all): whatever the bridge makes of it - one frame or several - each frame needs credit
        if r.chance(1, 12) {
            rs.clear();
            // one such run in twelve: more than 4 MiB ready back to back (whatever bound an
            // implementation puts on what it gathers into one frame, the rest must still move)
            let huge = r.chance(1, 20);
            huge_burst = huge;
            let each = if huge { 262_144 } else { *r.pick(&[4096usize, 8192, 16_384, 65_536]) };
            for _ in 0..(if huge { 17 + r.below(4) } else { 4 + r.below(28) }) {
                rs.push(R::Chunk(each));
            }
        }
        if r.chance(1, 3) {
            rs.push(R::PendWake);
        }
        rs.push(match r.below(5) {
            0 | 1 => R::Eof,
            2 => R::Err,
            _ => R::PendForever,
        });
        let mut ws = vec![];
        for _ in 0..r.below(12) {
            ws.push(if r.chance(1, 4) { Wr::PendWake } else { Wr::Accept(1 + r.below(16)) });
        }
        if r.chance(1, 6) {
            ws.push(if r.chance(1, 4) { Wr::ZeroForever } else { Wr::Err });
        }
        let fls = |r: &mut Prng, perr: u64| -> Vec<Fl> {
            let mut v = vec![];
            for _ in 0..r.below(4) {
                v.push(if r.chance(1, 3) { Fl::PendWake } else { Fl::Ok });
            }
            if r.chance(perr, 100) {
                v.push(Fl::Err);
            }
            v
        };
        let mut fl = fls(r, 8);
        // one run in eight: from some flush on the local writer cannot flush any more
        if r.chance(1, 8) {
            fl.retain(|f| *f != Fl::Err);
            fl.push(Fl::PendForever);
        }
        let sh = fls(r, 10);
        let pushes = (0..r.below(10)).map(|_| if r.chance(1, 10) { 1 + r.below(4000) } else { 1 + r.below(30) }).collect();
        let plan = C13Plan {
            ep: EpCfg { rwnd, threshold: 1 + r.below(rwnd as usize) as u32, dgram_buf: 8, stream_buf: 4, bind_buf: 0, retries: 3, ids: vec![], keepalive_ms: [0, 0] },
            link: LinkCfg { window: *r.pick(&[1usize, 4, 1 << 20]), latency_ms: if r.chance(1, 5) { 10 } else { 0 }, drop_after_close: false, ws_client: r.below(2) as u8, bp_flush: r.chance(1, 2) },
            weights: gen_weights(r),
            peer_rwnd: *r.pick(&[1u32, 2, 4, 100]),
            rs,
            ws,
            fl,
            sh,
            pushes,
            peer_end: r.below(3) as u8,
            ack_mode: r.below(3) as u8,
            peer_yields: r.below(4),
            // (megabytes through a buffer of a few bytes would cost seconds per run and show nothing new)
            bufreader: if r.chance(1, 3) { Some(if huge_burst { *r.pick(&[8192usize, 262_144]) } else { *r.pick(&[1usize, 7, 64, 8192]) }) } else { None },
            late_end: if r.chance(1, 3) { 1 + r.below(2) as u8 } else { 0 },
            coop: r.chance(1, 5),
            spurious: r.chance(1, 4),
        };
        (serde_json::to_value(plan).expect("plan"), seed)
    }
    fn exec(&self, plan: &Value, sched: &Sched, record: bool) -> Outcome {
        let Ok(plan) = serde_json::from_value::<C13Plan>(plan.clone()) else { return Outcome::default() };
        run_c13(&plan, sched, record)
    }
    fn rule(&self) -> &'static str {
        "(a third of the runs end with a late event once everything is quiet: the peer resets the flow or the connection is lost, so that a bridge sitting on unsent data for lack of credit has a failed write) a real endpoint accepts a stream from the raw peer and bridges it (into_copy_bidirectional_with_buf, directly or through a BufReader of capacity 1/7/64/8192) with a scripted local byte stream: read side = chunks of 1..8 KiB, Pending->wake, Pending forever, EOF or error; write side = partial acceptance, Pending->wake, error; flush and shutdown = Ok / Pending->wake / error. The peer pushes 0-9 frames (credit permitting), then Finish, Reset or nothing, and acknowledges every frame, never, or in late batches (credit starvation). Oracle: relayed bytes are exact prefixes both ways, Push count <= credit granted, EOF -> exactly one Finish / peer Finish -> local shutdown while the other direction keeps flowing, Ok((r,w)) with true counts once both ended, any returned local error or mux-side BrokenPipe completes the bridge by quiescence. Non-trivial: bytes flowed in both directions."
    }
}
pub fn c13() -> Check {
    let c = c02();
    Check {
        property: "C13",
        engine: "muxsim",
        level: "fault_enumeration",
        families: vec![Box::new(C13Family)],
        required_probes: vec!["bridge-ok", "bridge-err", "bridge-legitimately-pending", "bridge-coalesced-chunks", "bridge-credit-starved", "flow-closed-under-starved-writer", "fault:local-read-error", "fault:local-write-error", "fault:local-flush-error", "fault:local-shutdown-error", "fault:peer-reset"],
        assumptions: vec!["a local writer never returns Ok(0) for a non-empty buffer (outside the AsyncWrite contract)", "no particular framing / coalescing or flush discipline is demanded beyond `a flush error ends the bridge`", "a bridge still pending because the peer has not ended its direction (or the local side pends forever) is correct"],
        real: vec!["penguin_mux::stream_tools::CopyBidirectional", "penguin_mux::MuxStream", "penguin_mux connection task", "frame codec (incl. append_push_data)", "tokio::io::BufReader (in a third of the runs)"],
        stub: vec!["local byte stream (ScriptIo)", "the peer (raw, reference codec)", "WebSocket transport", "scheduler"],
    }
}

// ------------------------------------------------------------------ C16

pub struct C16Family {
    busy: bool,
}
/// a live peer that answers every Ping at once, and an endpoint whose Sink is busy with a burst of
/// datagrams for several keepalive timeouts (slow link with room for 1-2 messages)
fn gen_c16_busy(r: &mut Prng) -> C16Plan {
    let lat = *r.pick(&[5u64, 10, 25]);
    let i_ms = lat * *r.pick(&[40u64, 60, 100]);
    let t_req = 2 * i_ms;
    let backlog = (t_req / lat) as usize * (5 + r.below(6)) + r.below(20);
    C16Plan { interval_ms: i_ms, timeout_ms: t_req, delays: vec![], tail: Some(0), link: LinkCfg { window: 1 + r.below(2), latency_ms: lat, drop_after_close: false, ws_client: r.below(2) as u8, bp_flush: r.chance(1, 2) }, weights: gen_weights(r), stuck_sink: false, start_delay_ms: if r.chance(1, 4) { i_ms / 2 + 1 } else { 0 }, timeout_first: r.chance(1, 4), replaced_interval_ms: 0, flood_connects: 0, zero_via_from_secs: false, peer_pings_ms: 0, backlog, drop_then_stall_ms: 0 }
}
impl Family for C16Family {
    fn name(&self) -> &'static str {
        if self.busy { "busy-sink" } else { "keepalive" }
    }
    fn runs(&self, tier: Tier) -> u64 {
        match (self.busy, tier == Tier::Quick) {
            (false, true) => 60_000,
            (false, false) => 3_000_000,
            (true, true) => 4_000,
            (true, false) => 200_000,
        }
    }
    fn generate(&self, batch_seed: u64, index: u64, _tier: Tier) -> (Value, u64) {
        let seed = simcore::prng::mix(batch_seed, "keepalive", index);
        let mut r = Prng::new(seed);
        let r = &mut r;
        let i_ms = if r.chance(1, 10) { 0 } else { *r.pick(&[500u64, 1000, 2000, 3000, 5000, 25_000]) };
        let t_req = if r.chance(1, 12) { 0 } else { *r.pick(&[500u64, 1000, 2000, 3000, 7000, 60_000]) };
        let t = if t_req == 0 { 0 } else { t_req.max(i_ms) };
        let (mut delays, mut tail) = (vec![], Some(0u64));
        let mode = r.below(7);
        match mode {
            0 => tail = Some(r.below(t.max(1) as usize + 1) as u64), // constant delay in [0, T]
            1 => {
                // uniform per ping in [0, T]
                delays = (0..60).map(|_| Some(r.below(t.max(1) as usize + 1) as u64)).collect();
                tail = Some(0);
            }
            2 => {
                // adversarially uneven: alternate immediate and exactly-T answers
                delays = (0..60).map(|k| Some(if (k + r.below(2)) % 2 == 0 { 0 } else { t })).collect();
                tail = Some(0);
            }
            3 => {
                // answered for k rounds, then silent
                let k = r.below(6);
                delays = (0..k).map(|_| Some(r.below((t / 2).max(1) as usize + 1) as u64)).collect();
                tail = None;
            }
            4 => tail = None, // never answered
            5 => {
                // answered, but later than T + I: not a live peer
                tail = Some(t + i_ms + 1 + r.below(3 * i_ms.max(1) as usize) as u64);
            }
            _ => {
                // small delays, far inside T
                delays = (0..60).map(|_| Some(r.below((i_ms.min(t) / 4).max(1) as usize) as u64)).collect();
                tail = Some(0);
            }
        }
        let stuck_sink = r.chance(1, 3);
        let plan = C16Plan { interval_ms: i_ms, timeout_ms: t_req, delays, tail, link: LinkCfg { window: if stuck_sink { 1 + r.below(2) } else { 1 << 20 }, latency_ms: 0, drop_after_close: r.chance(1, 2), ws_client: r.below(2) as u8, bp_flush: r.chance(1, 2) }, weights: gen_weights(r), stuck_sink, start_delay_ms: if r.chance(1, 4) { *r.pick(&[1u64, i_ms / 2 + 1, 2 * t_req.max(i_ms) + 1]) } else { 0 }, timeout_first: r.chance(1, 4), replaced_interval_ms: if r.chance(1, 5) { *r.pick(&[100u64, 4000, 30_000, 100_000]) } else { 0 }, flood_connects: if r.chance(1, 5) { *r.pick(&[1usize, 5, 6, 9]) } else { 0 }, zero_via_from_secs: r.chance(1, 3), peer_pings_ms: if r.chance(1, 4) { (i_ms / *r.pick(&[1u64, 2, 3])).max(1) } else { 0 }, backlog: 0, drop_then_stall_ms: 0 };
        if !self.busy && r.chance(1, 16) {
            // keepalive disabled with a timeout value still set (what `--keepalive 0` gives), the
            // application lets go with a backlog queued and the live peer takes nothing for a while
            let lat = *r.pick(&[5u64, 10]);
            let t_req = *r.pick(&[500u64, 1000, 2000]);
            let mut p = gen_c16_busy(r);
            p.interval_ms = 0;
            p.timeout_ms = t_req;
            p.link.latency_ms = lat;
            p.backlog = 20 + r.below(120);
            p.drop_then_stall_ms = t_req * (2 + r.below(3) as u64) + r.below(500) as u64;
            p.start_delay_ms = 0;
            p.zero_via_from_secs = r.chance(1, 3);
            return (serde_json::to_value(p).expect("plan"), seed);
        }
        if self.busy {
            return (serde_json::to_value(gen_c16_busy(r)).expect("plan"), seed);
        }
        (serde_json::to_value(plan).expect("plan"), seed)
    }
    fn exec(&self, plan: &Value, sched: &Sched, record: bool) -> Outcome {
        let Ok(plan) = serde_json::from_value::<C16Plan>(plan.clone()) else { return Outcome::default() };
        run_c16(&plan, sched, record)
    }
    fn rule(&self) -> &'static str {
        if self.busy {
            return "the same endpoint against a live peer that answers every Ping at once, on a link that takes 5-25 ms per message with room for 1-2 of them; half an interval after the start the application queues a burst of datagrams that keeps the Sink busy for 2-5 timeouts (I = 40-100 message times, T = 2 I). Oracle: ping k leaves no earlier than k*I and no later than the messages the Sink had already taken need (window + 2 message times): never behind the queued burst; no timeout. Non-trivial: at least 3 ping rounds.";
        }
        "one real endpoint built with a timestamp provider that reads the paused virtual clock, (I, T) from {0.5,1,2,3,5,25} x {0.5,1,2,3,7,60} s set through the builder in its documented order (T < I is clamped) plus disabled values; the raw peer answers ping k after a scripted delay: constant in [0,T], uniform in [0,T], alternating 0 / exactly T, k rounds then dead (the transport then returns nothing at all), never, later than T+I, or far inside T. Horizon max(50 I, T + 12 I). Oracle: ping k leaves at exactly k*I; a dead peer is detected with T <= age of the last pong (event order) <= T + I and every pending call then resolves; a peer answering every ping within T is never timed out; disabled = no ping, no end. Non-trivial: at least 3 ping rounds."
    }
}
pub fn c16() -> Check {
    Check {
        property: "C16",
        engine: "muxsim",
        level: "exploration",
        families: vec![Box::new(C16Family { busy: false }), Box::new(C16Family { busy: true })],
        required_probes: vec!["keepalive-timeout-fired", "live-peer-never-timed-out", "keepalive-disabled", "timeout-clamped-to-interval", "pings-without-timeout", "sink-busy-for-more-than-two-timeouts"],
        assumptions: vec!["tokio's paused clock is the only clock: the TimestampProvider type parameter (existing seam) reads it", "a dead peer is a transport that returns nothing, not even Close"],
        real: vec!["penguin_mux connection task incl. schedule_ping_task and wind_down", "penguin_mux::config::Options builder (clamping)", "penguin_mux::timing (OptionalDuration, OptionalInterval)", "tokio::time::interval on the paused timer wheel"],
        stub: vec!["the peer's WebSocket stack (scripted Pong delays)", "WebSocket transport", "scheduler"],
    }
}

// ------------------------------------------------------------------ C18 (E3 stream-fault simulator)

use crate::socks::*;
pub struct C18Family {
    pub name: &'static str,
    /// sweep every cut offset (x EOF / error / left open) of generated requests
    pub sweep: bool,
}
fn gen_addr(r: &mut Prng) -> Addr {
    match r.below(3) {
        0 => {
            if r.chance(1, 5) {
                Addr::V4(*r.pick(&[[0u8, 0, 0, 0], [255, 255, 255, 255], [127, 0, 0, 1], [224, 0, 0, 1], [169, 254, 0, 1]]))
            } else {
                Addr::V4([1 + r.below(255) as u8, r.next() as u8, r.next() as u8, r.next() as u8])
            }
        }
        1 => {
            // a third of the IPv6 addresses come from the ranges with a special reading (a uniformly
            // random address never falls into them): an IPv6 address is 16 opaque octets to SOCKS
            if r.chance(1, 3) {
                let v4 = [r.next() as u8, r.next() as u8, r.next() as u8, r.next() as u8];
                let mut b = [0u8; 16];
                match r.below(9) {
                    0 => {
                        // IPv4-mapped ::ffff:a.b.c.d
                        b[10] = 0xff;
                        b[11] = 0xff;
                        b[12..].copy_from_slice(&v4);
                    }
                    1 => b[12..].copy_from_slice(&v4), // IPv4-compatible ::a.b.c.d
                    2 => {
                        // IPv4-translated ::ffff:0:a.b.c.d
                        b[8] = 0xff;
                        b[9] = 0xff;
                        b[12..].copy_from_slice(&v4);
                    }
                    3 => {
                        // NAT64 64:ff9b::a.b.c.d
                        b[0] = 0x00;
                        b[1] = 0x64;
                        b[2] = 0xff;
                        b[3] = 0x9b;
                        b[12..].copy_from_slice(&v4);
                    }
                    4 => b[15] = 1, // loopback
                    5 => {}         // unspecified
                    6 => {
                        // link-local
                        b[0] = 0xfe;
                        b[1] = 0x80;
                        b[12..].copy_from_slice(&v4);
                    }
                    7 => {
                        // multicast
                        b[0] = 0xff;
                        b[1] = 0x02;
                        b[15] = 1;
                    }
                    _ => {
                        // 6to4 2002:a.b.c.d::
                        b[0] = 0x20;
                        b[1] = 0x02;
                        b[2..6].copy_from_slice(&v4);
                    }
                }
                Addr::V6(b.to_vec())
            } else {
                Addr::V6(r.bytes(16))
            }
        }
        _ => {
            let rnd = 1 + r.below(254);
            let n = *r.pick(&[0usize, 1, 5, 255, rnd]);
            Addr::Domain((0..n).map(|_| b'a' + r.below(26) as u8).collect())
        }
    }
}
/// 16 address octets for the reply / UDP header builders (the first 4 are used for IPv4)
fn gen_ip16(r: &mut Prng) -> Vec<u8> {
    loop {
        match gen_addr(r) {
            Addr::V6(b) => return b,
            Addr::V4(a) if r.chance(1, 2) => {
                let mut b = r.bytes(16);
                b[..4].copy_from_slice(&a);
                return b;
            }
            _ => {}
        }
    }
}
fn gen_io(r: &mut Prng, total: usize) -> IoScript {
    IoScript {
        chunks: match r.below(4) {
            0 => vec![1],
            1 => vec![],
            _ => (0..(1 + r.below(5))).map(|_| r.below(9)).collect(),
        },
        cut: if r.chance(1, 2) { usize::MAX >> 1 } else { r.below(total + 2) },
        end: match r.below(3) {
            0 => EndMode::Eof,
            1 => EndMode::Err,
            _ => EndMode::Open,
        },
        writes: if r.chance(1, 2) { vec![] } else { (0..(1 + r.below(4))).map(|_| r.below(5)).collect() },
        write_err_at: if r.chance(1, 8) { 1 + r.below(3) } else { 0 },
        bufreader: if r.chance(1, 2) { 0 } else { *r.pick(&[1usize, 2, 7, 64, 8192]) },
    }
}
fn gen_request(r: &mut Prng) -> Case {
    if r.chance(1, 2) {
        let addr = gen_addr(r);
        Case::V5Request { ver: if r.chance(1, 12) { *r.pick(&[0u8, 4, 6, 255]) } else { 5 }, cmd: if r.chance(1, 5) { r.next() as u8 } else { 1 + r.below(3) as u8 }, rsv: if r.chance(1, 6) { r.next() as u8 } else { 0 }, atyp_override: if r.chance(1, 12) { Some(*r.pick(&[0u8, 2, 5, 9, 255])) } else { None }, addr, port: r.next() as u16 }
    } else {
        let is4a = r.chance(1, 2);
        // plain SOCKS4 addresses include the ones next to the SOCKS4a marker 0.0.0.x (x != 0):
        // 0.0.0.0 and 0.x.y.z are ordinary IPv4 addresses
        let ip = if is4a {
            [0, 0, 0, 1 + r.below(255) as u8]
        } else if r.chance(1, 4) {
            *r.pick(&[[0u8, 0, 0, 0], [0, 1, 2, 3], [0, 0, 1, 0], [0, 255, 255, 255], [0, 0, 1, 1]])
        } else {
            [1 + r.below(255) as u8, r.next() as u8, r.next() as u8, r.next() as u8]
        };
        let ulen = *r.pick(&[0usize, 1, 8, 300]);
        let dlen = *r.pick(&[0usize, 1, 11, 255, 400]);
        Case::V4Request { cmd: if r.chance(1, 5) { r.next() as u8 } else { 1 + r.below(2) as u8 }, port: r.next() as u16, ip, user: r.bytes(ulen), user_nul: !r.chance(1, 8), domain: if is4a { Some((0..dlen).map(|_| b'a' + r.below(26) as u8).collect()) } else { None }, domain_nul: !r.chance(1, 6) }
    }
}
fn request_len(c: &Case) -> usize {
    match c {
        Case::V5Request { addr, .. } => 4 + match addr { Addr::V4(_) => 4, Addr::V6(_) => 16, Addr::Domain(d) => 1 + d.len().min(255) } + 2,
        Case::V4Request { user, user_nul, domain, domain_nul, .. } => 7 + user.len() + *user_nul as usize + domain.as_ref().map(|d| d.len() + *domain_nul as usize).unwrap_or(0),
        _ => 0,
    }
}
impl Family for C18Family {
    fn name(&self) -> &'static str {
        self.name
    }
    fn runs(&self, tier: Tier) -> u64 {
        match (self.sweep, tier) {
            (false, Tier::Quick) => 400_000,
            (false, Tier::Thorough) => 20_000_000,
            (true, Tier::Quick) => 600 * 256,
            (true, Tier::Thorough) => 40_000 * 256,
        }
    }
    fn generate(&self, batch_seed: u64, index: u64, _tier: Tier) -> (Value, u64) {
        if self.sweep {
            // one request per group of 256 indices; the cut offset walks over every byte offset,
            // the end mode over {EOF, error, left open}
            let seed = simcore::prng::mix(batch_seed, self.name, index / 256);
            let mut r = Prng::new(seed);
            let mut case = gen_request(&mut r);
            // keep the request short enough for the sweep to cover every offset with every end mode
            match &mut case {
                Case::V5Request { addr: Addr::Domain(d), .. } => d.truncate(60),
                Case::V4Request { user, domain, .. } => {
                    user.truncate(20);
                    if let Some(d) = domain {
                        d.truncate(40);
                    }
                }
                _ => {}
            }
            let len = request_len(&case);
            let mut io = gen_io(&mut r, len);
            let k = (index % 256) as usize;
            io.cut = k / 3;
            io.end = [EndMode::Eof, EndMode::Err, EndMode::Open][k % 3].clone();
            io.write_err_at = 0;
            let tl = r.below(4);
            let trailing = r.bytes(tl);
            return (serde_json::to_value(C18Plan { case, trailing, io }).expect("plan"), seed);
        }
        let seed = simcore::prng::mix(batch_seed, self.name, index);
        let mut r = Prng::new(seed);
        let r = &mut r;
        let case = match r.below(12) {
            0..=5 => gen_request(r),
            6 => Case::V5Auth { methods: { let n = *r.pick(&[0usize, 1, 3, 255]); r.bytes(n) }, declared: if r.chance(1, 5) { Some(r.next() as u8) } else { None } },
            7 => Case::V5Reply { code: r.below(10) as u8, v6: r.chance(1, 2), ip: gen_ip16(r), port: r.next() as u16 },
            8 => match r.below(3) {
                0 => Case::V5ReplyUnspec { code: r.below(10) as u8 },
                1 => Case::V5AuthReply { method: *r.pick(&[0u8, 1, 2, 255]) },
                _ => Case::V4Reply { code: 90 + r.below(4) as u8 },
            },
            9 => Case::UdpBuild { v6: r.chance(1, 2), ip: gen_ip16(r), port: r.next() as u16, payload: { let n = *r.pick(&[0usize, 1, 2, 30, 1400]); r.bytes(n) } },
            _ => {
                let addr = gen_addr(r);
                let natural = match addr { Addr::V4(_) => 1, Addr::Domain(_) => 3, Addr::V6(_) => 4 };
                let plen = *r.pick(&[0usize, 1, 50]);
                Case::UdpParse { frag: if r.chance(1, 6) { 1 + r.below(255) as u8 } else { 0 }, atyp: if r.chance(1, 8) { *r.pick(&[0u8, 2, 5, 200]) } else { natural }, addr, port: r.next() as u16, payload: r.bytes(plen), truncate: if r.chance(1, 3) { Some(r.below(30)) } else { None } }
            }
        };
        let len = request_len(&case);
        let io = gen_io(r, len);
        let tl = r.below(6);
        let trailing = r.bytes(tl);
        (serde_json::to_value(C18Plan { case, trailing, io }).expect("plan"), seed)
    }
    fn records_decisions(&self) -> bool {
        false
    }
    fn exec(&self, plan: &Value, sched: &Sched, _record: bool) -> Outcome {
        let Ok(plan) = serde_json::from_value::<C18Plan>(plan.clone()) else { return Outcome::default() };
        run_c18(&plan, sched)
    }
    fn rule(&self) -> &'static str {
        if self.sweep {
            "cut sweep: for each generated SOCKS4/4a/5 request the input is cut at EVERY byte offset 0..84, each with end-of-stream, an I/O error, or the connection left open and silent; chunking and BufReader capacity stay fixed per request."
        } else {
            "requests from a reference grammar (SOCKS4 literal IP, SOCKS4a domain 0..400 bytes, SOCKS5 every ATYP, domain length 0/1/5/255/random, all commands, bad versions / address types, user-ids 0..300 bytes, NUL terminators present or missing), served through the scripted stream under seeded chunkings (1-byte chunks, spurious Pending, direct AsyncBufRead or BufReader of capacity 1..8192), followed by trailing bytes, or cut at a seeded offset with EOF / error / left open; reply writers for every code and bound address under partial writes, Pending and write errors; UDP relay header build (parsed by an independent RFC 1928 client parser) and parse (reference-encoded headers, FRAG != 0, unknown ATYP, truncations). SOCKS4 addresses 0.0.0.0 and 0.x.y.z are unspecified and not generated."
        }
    }
}
pub fn c18() -> Check {
    Check {
        property: "C18",
        engine: "muxsim",
        level: "fault_enumeration",
        families: vec![Box::new(C18Family { name: "messages", sweep: false }), Box::new(C18Family { name: "cut-sweep", sweep: true })],
        required_probes: vec!["v5-request-ok", "v4-request-ok", "v5-auth-ok", "reply-ok", "udp-header-built", "udp-header-parsed", "reader-keeps-waiting", "request-rejected", "fault:cut-inside-request", "fault:reply-write-error"],
        assumptions: vec!["addresses are compared by value (parsed IP), not by textual form", "SOCKS4 requests with DSTIP 0.0.0.0 or 0.x.y.z (x..!=0) are unspecified and not judged"],
        real: vec!["penguin_socks::v4::{read_request, write_response}", "penguin_socks::v5::{read_auth_methods, write_auth_method, read_request, write_response, write_response_unspecified, parse_udp_relay_header, udp_relay_response}", "tokio::io::BufReader / AsyncReadExt / AsyncBufReadExt"],
        stub: vec!["the byte stream (scripted chunking, Pending, EOF, errors, short writes)", "the SOCKS client (reference grammar / RFC 1928 parser)"],
    }
}

// ------------------------------------------------------------------ C07: raw peer rejecting proposals

pub struct C07RawFamily;
impl Family for C07RawFamily {
    fn name(&self) -> &'static str {
        "rejecting-peer"
    }
    fn runs(&self, tier: Tier) -> u64 {
        if tier == Tier::Quick { 100_000 } else { 2_000_000 }
    }
    fn generate(&self, batch_seed: u64, index: u64, _tier: Tier) -> (Value, u64) {
        let seed = simcore::prng::mix(batch_seed, "rejecting-peer", index);
        let mut r = Prng::new(seed);
        let r = &mut r;
        let retries = *r.pick(&[1usize, 2, 3, 5]);
        let opens = 1 + r.below(3);
        let space = 2 + r.below(6);
        let plan = C07RawPlan {
            ep: EpCfg { rwnd: 4, threshold: 2, dgram_buf: 8, stream_buf: 4, bind_buf: 0, retries, ids: if r.chance(1, 2) { (0..30).map(|_| r.below(space + 1) as u32).collect() } else { vec![] }, keepalive_ms: [0, 0] },
            link: LinkCfg { window: *r.pick(&[1usize, 8, 1 << 20]), latency_ms: 0, drop_after_close: false, ws_client: 0, bp_flush: r.chance(1, 2) },
            weights: gen_weights(r),
            reject: r.below(retries * opens + 2),
            peer_rwnd: *r.pick(&[1u32, 4, 100]),
            opens,
            yields: r.below(4),
        };
        (serde_json::to_value(plan).expect("plan"), seed)
    }
    fn exec(&self, plan: &Value, sched: &Sched, record: bool) -> Outcome {
        let Ok(plan) = serde_json::from_value::<C07RawPlan>(plan.clone()) else { return Outcome::default() };
        run_c07_raw(&plan, sched, record)
    }
    fn rule(&self) -> &'static str {
        "one real endpoint with max_flow_id_retries in {1,2,3,5} and a scripted or counter-based flow-id generator issues 1-3 concurrent new_stream_channel calls; the raw peer rejects the first k Connect frames it sees (k from 0 to beyond all retries) with Reset and acknowledges the rest. Oracle: a request fails with FlowIdRejected exactly after max_flow_id_retries rejected Connects, succeeds iff exactly one of its Connects was acknowledged, never more Connects than retries per request, never id 0 or an id the endpoint still uses. Non-trivial: at least one Connect was rejected."
    }
}

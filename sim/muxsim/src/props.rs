//! Property families on the two-real-endpoints harness (C02-C08, C11, C15).

use crate::duo::*;
use crate::plangen::*;
use crate::oracle::*;
use serde_json::Value;
use simcore::{Check, Family, Outcome, Prng, Sched, Tier};

type GenFn = fn(&mut Prng, u64, Tier) -> Plan;
type ExtraFn = fn(&DuoRun, &WireModel, &EndInfo, &mut Outcome);
type NontrivFn = fn(&DuoRun, &WireModel, &EndInfo) -> bool;

pub struct DuoFamily {
    pub name: &'static str,
    pub quick: u64,
    pub thorough: u64,
    pub generate: GenFn,
    pub cfg: OracleCfg,
    pub extra: Option<ExtraFn>,
    pub nontrivial: NontrivFn,
    pub rule: &'static str,
    pub exhaustive_thorough: bool,
}
impl Family for DuoFamily {
    fn name(&self) -> &'static str {
        self.name
    }
    fn runs(&self, tier: Tier) -> u64 {
        if tier == Tier::Quick { self.quick } else { self.thorough }
    }
    fn generate(&self, seed: u64, index: u64, tier: Tier) -> Value {
        let mut r = Prng::new(seed);
        serde_json::to_value((self.generate)(&mut r, index, tier)).expect("plan")
    }
    fn exec(&self, plan: &Value, sched: &Sched, record: bool) -> Outcome {
        let Ok(plan) = serde_json::from_value::<Plan>(plan.clone()) else { return Outcome::default() };
        let run = crate::duo::run(&plan, sched, record);
        let mut o = outcome_base(&run);
        let (wm, ei) = judge(&run, &self.cfg, &mut o);
        judge_leaks(&run, &wm, &ei, &mut o);
        if let Some(f) = self.extra {
            f(&run, &wm, &ei, &mut o);
        }
        o.nontrivial = (self.nontrivial)(&run, &wm, &ei);
        common_probes(&run, &wm, &mut o);
        if let Some(t) = &run.trace {
            for l in t {
                eprintln!("{l}");
            }
            let l = run.link.lock().unwrap();
            for e in &l.evs {
                eprintln!("  #{:<5} {:?} from {} {}{}", e.seq, e.stage, e.from, e.w.short(), if e.injected { " (injected)" } else { "" });
            }
        }
        o.note = note(&run, &wm);
        o
    }
    fn rule(&self) -> &'static str {
        self.rule
    }
    fn exhaustive(&self, tier: Tier) -> bool {
        tier == Tier::Thorough && self.exhaustive_thorough
    }
}

fn note(r: &DuoRun, wm: &WireModel) -> String {
    let led = r.led.borrow();
    format!(
        "steps={} push={} ack={} reset={} streams={} opened={} task_end={:?} fired={:?}",
        r.steps,
        wm.n_push,
        wm.n_ack,
        wm.n_reset,
        led.streams.len(),
        led.streams.iter().filter(|s| matches!(s.open_ret, Some((_, Ok(()))))).count(),
        led.task_end.iter().map(|t| t.as_ref().map(|x| x.1.clone())).collect::<Vec<_>>(),
        r.fired.iter().map(|f| f.0.clone()).collect::<Vec<_>>()
    )
}

fn common_probes(r: &DuoRun, wm: &WireModel, o: &mut Outcome) {
    let l = r.link.lock().unwrap();
    o.probe("link-backpressure", (l.backpressure_hits > 0) as u64);
    o.probe("ack-crossing-push", (wm.ack_crossed_push > 0) as u64);
    let mut exhausted = 0;
    let mut multi = 0;
    for i in &wm.insts {
        for x in 0..2 {
            if i.win[1 - x].is_some_and(|w| i.max_outstanding[x] == w as u64) {
                exhausted = 1;
            }
        }
    }
    if wm.insts.iter().filter(|i| i.est_sent.is_some()).count() > 1 {
        multi = 1;
    }
    o.probe("window-exactly-exhausted", exhausted);
    o.probe("multiple-streams", multi);
    o.probe("reset-on-wire", (wm.n_reset > 0) as u64);
    let led = r.led.borrow();
    let mut parked = 0;
    for s in &led.streams {
        for sd in &s.sides {
            // a write whose call spanned other events = the writer was parked
            if sd.writes.iter().any(|w| w.ret.is_some_and(|t| t > w.inv + 2)) {
                parked = 1;
            }
        }
    }
    o.probe("writer-parked-on-credit", parked);
}

fn nt_data(_r: &DuoRun, wm: &WireModel, _e: &EndInfo) -> bool {
    wm.n_push >= 4 && wm.n_ack >= 2
}

// ------------------------------------------------------------------ C02

fn gen_c02(r: &mut Prng, _i: u64, _t: Tier) -> Plan {
    let mut p = base_plan(r);
    let n = 1 + r.below(4);
    for _ in 0..n {
        p.streams.push(gen_stream(r, &CLEAN));
    }
    p
}
pub fn c02() -> Check {
    Check {
        property: "C02",
        engine: "muxsim",
        level: "exploration",
        families: vec![Box::new(DuoFamily {
            name: "streams",
            quick: 40_000,
            thorough: 3_000_000,
            generate: gen_c02,
            cfg: OracleCfg::default(),
            extra: None,
            nontrivial: nt_data,
            rule: "1-4 streams opened from either side, per direction a writer (plain/vectored writes incl. empty slices, bursts beyond the window, flush, shutdown) and a reader (read with buffers 1..64 or fill_buf+partial consume); (rwnd, threshold) drawn independently per side from {1,2,3,4,8,16}^2, link window from {1,2,8,inf}, optional latency, schedule weights per run. Non-trivial: at least 4 Push and 2 Acknowledge frames crossed the wire.",
            exhaustive_thorough: false,
        })],
        required_probes: vec!["writer-parked-on-credit", "window-exactly-exhausted", "multiple-streams", "link-backpressure"],
        assumptions: vec!["the WebSocket below the multiplexor is reliable and ordered per direction (PROTOCOL.md); the in-memory link implements tokio-tungstenite's observable contract", "one poll of a task is atomic (single-threaded scheduling; finer interleavings are C12's)"],
        real: vec!["penguin_mux::Multiplexor", "penguin_mux::TaskData::into_task (receive/send/ping/dropped-handle loops, wind_down)", "penguin_mux::MuxStream (AsyncRead, AsyncBufRead, AsyncWrite incl. vectored)", "penguin_mux::frame codec", "cow-bytes", "tokio::sync channels", "tokio paused timer wheel"],
        stub: vec!["WebSocket transport (SimWs in-memory link)", "applications (scripted actors)", "flow-id RNG (scripted)", "task scheduler (seeded executor)"],
    }
}

pub fn lookup(id: &str) -> Option<Check> {
    match id {
        "C02" => Some(c02()),
        _ => None,
    }
}

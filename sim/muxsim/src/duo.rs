//! Two real `penguin-mux` endpoints over the simulated link, driven by scripted applications.
//!
//! Real code: `Multiplexor`, `TaskData::into_task` (all loops + `wind_down`), `MuxStream`
//! (AsyncRead/AsyncBufRead/AsyncWrite incl. vectored), the frame codec, `config::Options`.
//! Stubs: the WebSocket (`SimWs`), the applications (actors interpreting the plan), the flow-id RNG.

use crate::exec::*;
use crate::link::*;
use bytes::Bytes;
use penguin_mux::config::Options;
use penguin_mux::frame::BindType;
use penguin_mux::timing::TimestampProvider;
use penguin_mux::{Datagram, Multiplexor, MuxStream};
use serde::{Deserialize, Serialize};
use simcore::{Outcome, Sched, Violation};
use std::cell::{Cell, RefCell};
use std::future::Future;
use std::io::IoSlice;
use std::pin::Pin;
use std::rc::Rc;
use std::sync::{Arc, Mutex};
use std::task::{Context, Poll, Waker};
use std::time::Duration;
use tokio::io::{AsyncBufRead, AsyncRead, AsyncWrite, ReadBuf};

// ------------------------------------------------------------------ seams

/// Timestamp provider reading tokio's paused clock.
#[derive(Copy, Clone, Debug)]
pub struct SimInstant(tokio::time::Instant);
impl TimestampProvider for SimInstant {
    fn now() -> Self {
        SimInstant(tokio::time::Instant::now())
    }
    fn duration_since(&self, e: Self) -> Duration {
        self.0.duration_since(e.0)
    }
}

/// Scripted flow-id RNG: yields the scripted values, then a per-endpoint counter.
pub struct ScriptRng {
    pub vals: Arc<Mutex<std::collections::VecDeque<u32>>>,
    pub base: u32,
    pub ctr: u32,
}
impl rand::TryRng for ScriptRng {
    type Error = std::convert::Infallible;
    fn try_next_u32(&mut self) -> Result<u32, Self::Error> {
        let mut v = self.vals.lock().unwrap();
        if let Some(x) = v.pop_front() {
            Ok(x)
        } else {
            self.ctr = self.ctr.wrapping_add(1);
            Ok(self.base.wrapping_add(self.ctr))
        }
    }
    fn try_next_u64(&mut self) -> Result<u64, Self::Error> {
        Ok(self.try_next_u32()? as u64)
    }
    fn try_fill_bytes(&mut self, d: &mut [u8]) -> Result<(), Self::Error> {
        for b in d {
            *b = self.try_next_u32()? as u8;
        }
        Ok(())
    }
}
pub type Mux = Multiplexor<ScriptRng>;

// ------------------------------------------------------------------ plan

#[derive(Serialize, Deserialize, Clone, Debug)]
pub struct EpCfg {
    pub rwnd: u32,
    pub threshold: u32,
    pub dgram_buf: usize,
    pub stream_buf: usize,
    pub bind_buf: usize,
    pub retries: usize,
    /// scripted flow ids (then a counter based at `(ep+1) << 28`)
    pub ids: Vec<u32>,
    /// keepalive [interval, timeout] in ms; 0 = none
    #[serde(default)]
    pub keepalive_ms: [u64; 2],
}
impl Default for EpCfg {
    fn default() -> Self {
        EpCfg { rwnd: 4, threshold: 2, dgram_buf: 8, stream_buf: 4, bind_buf: 0, retries: 3, ids: vec![], keepalive_ms: [0, 0] }
    }
}
impl EpCfg {
    pub fn options(&self) -> Options {
        Options::new()
            .rwnd(self.rwnd)
            .default_rwnd_threshold(self.threshold)
            .datagram_buffer_size(self.dgram_buf)
            .stream_buffer_size(self.stream_buf)
            .bind_buffer_size(self.bind_buf)
            .max_flow_id_retries(self.retries)
            .keepalive_interval(if self.keepalive_ms[0] == 0 { penguin_mux::timing::OptionalDuration::NONE } else { Duration::from_millis(self.keepalive_ms[0]).into() })
            .keepalive_timeout(if self.keepalive_ms[1] == 0 { penguin_mux::timing::OptionalDuration::NONE } else { Duration::from_millis(self.keepalive_ms[1]).into() })
    }
}
#[derive(Serialize, Deserialize, Clone, Debug)]
pub struct LinkCfg {
    pub window: usize,
    pub latency_ms: u64,
    pub drop_after_close: bool,
    /// which endpoint plays the WebSocket client (waits for the transport to close after the closing
    /// handshake): 0 = none, 1 = endpoint 0, 2 = endpoint 1
    #[serde(default)]
    pub ws_client: u8,
    /// back-pressure shows in `poll_flush` instead of `poll_ready`
    #[serde(default)]
    pub bp_flush: bool,
}
#[derive(Serialize, Deserialize, Clone, Debug, PartialEq)]
pub enum WOp {
    Write(usize),
    WriteV(Vec<usize>),
    Flush,
    Shutdown,
    Yield(usize),
    Sleep(u64),
    /// drop the stream object (abort unless shut down before)
    Drop,
    /// wait until this side's reader has seen end-of-stream
    AwaitEof,
    /// wait (on simulated time) until the open call of stream `tag` has returned
    AwaitOpened(usize),
}
#[derive(Serialize, Deserialize, Clone, Debug, PartialEq)]
pub enum ROp {
    /// `times` reads into a buffer of `buf` bytes
    Read { buf: usize, times: usize },
    ReadEof { buf: usize },
    /// `times` x (fill_buf, consume(min(consume, len)); consume == 0 means all)
    Fill { consume: usize, times: usize },
    FillEof { consume: usize },
    Yield(usize),
    Sleep(u64),
    Drop,
    /// wait (on simulated time) until the open call of stream `tag` has returned
    AwaitOpened(usize),
}
#[derive(Serialize, Deserialize, Clone, Debug, Default)]
pub struct SidePlan {
    pub w: Vec<WOp>,
    pub r: Vec<ROp>,
    /// keep the stream object alive until the end of the run once both halves are done
    pub hold: bool,
}
#[derive(Serialize, Deserialize, Clone, Debug)]
pub struct StreamPlan {
    pub opener: usize,
    pub port: u16,
    pub pad: usize,
    pub delay: usize,
    /// start only after stream `after` was released by both applications and the system went quiescent
    pub after: Option<usize>,
    /// start only once one application has let go of stream `after_abort` (no quiescence barrier)
    #[serde(default)]
    pub after_abort: Option<usize>,
    /// start only once the application at the *opener's* endpoint has dropped its object of stream
    /// `after_let_go` and its connection task has had time to process that (no Reset is waited
    /// for: the stream may have been finished properly)
    #[serde(default)]
    pub after_let_go: Option<usize>,
    /// arbitrary host bytes instead of the tagged host (C07); such streams are matched to
    /// accepted streams by (host, port) equality
    #[serde(default)]
    pub raw_host: Option<Vec<u8>>,
    /// sides[0] = the opener's application, sides[1] = the acceptor's
    pub sides: [SidePlan; 2],
}
impl StreamPlan {
    pub fn host(&self, tag: usize) -> Vec<u8> {
        match &self.raw_host {
            Some(h) => h.clone(),
            None => host_for(tag, self.pad),
        }
    }
}
#[derive(Serialize, Deserialize, Clone, Debug)]
pub struct DgItem {
    pub flow: u32,
    pub hlen: usize,
    pub port: u16,
    pub len: usize,
    pub yields: usize,
}
#[derive(Serialize, Deserialize, Clone, Debug)]
pub struct DgTx {
    pub from: usize,
    pub items: Vec<DgItem>,
}
#[derive(Serialize, Deserialize, Clone, Debug)]
pub struct DgRx {
    pub ep: usize,
    /// yields before each `get_datagram` (cycled)
    pub pace: Vec<usize>,
    /// stop receiving after this many datagrams
    pub take: Option<usize>,
}
#[derive(Serialize, Deserialize, Clone, Debug)]
pub struct BindReq {
    pub from: usize,
    pub port: u16,
    pub ty: u8,
    pub hlen: usize,
    pub delay: usize,
    /// issue the request only once this endpoint has sent or consumed a Reset (the abort of an
    /// earlier stream has taken effect here and its flow id is free again)
    #[serde(default)]
    pub after_abort: bool,
}
#[derive(Serialize, Deserialize, Clone, Debug, PartialEq)]
pub enum Answer {
    Accept,
    Reject,
    Drop,
    /// keep the request object, answer never (until the end of the run)
    Hold,
    /// keep it, accept it after `n` further requests were taken (or at the end of the answers list)
    AcceptLater(usize),
}
#[derive(Serialize, Deserialize, Clone, Debug)]
pub struct Responder {
    pub ep: usize,
    pub answers: Vec<Answer>,
    pub yields: usize,
    /// forget request objects after an explicit reply instead of dropping them
    pub forget_after_reply: bool,
    /// a worker that takes exactly one request, answers it and does not come back (several of
    /// them wait in next_bind_request on one multiplexor at the same time)
    #[serde(default)]
    pub oneshot: bool,
}
#[derive(Serialize, Deserialize, Clone, Debug, PartialEq)]
pub enum FaultKind {
    PeerClose { to: usize },
    /// cut direction from -> 1-from
    Cut { from: usize, sink_err: bool, src: u8, drop_inflight: bool },
    /// both directions at once
    CutBoth { src: u8, drop_inflight: bool },
    Garbage { to: usize, kind: u8 },
    DropMux { ep: usize },
    Hold { from: usize, steps: u64 },
    /// the connection task future is dropped mid-flight (its JoinSet is dropped / it is aborted)
    /// while the Multiplexor handle and the streams live on
    AbortTask { ep: usize },
}
#[derive(Serialize, Deserialize, Clone, Debug)]
pub struct Fault {
    pub at: u64,
    pub kind: FaultKind,
}
#[derive(Serialize, Deserialize, Clone, Debug)]
pub struct Plan {
    pub eps: [EpCfg; 2],
    pub link: LinkCfg,
    pub weights: [u32; NCLS],
    pub streams: Vec<StreamPlan>,
    pub dg_tx: Vec<DgTx>,
    pub dg_rx: Vec<DgRx>,
    pub binds: Vec<BindReq>,
    pub responders: Vec<Responder>,
    pub faults: Vec<Fault>,
    /// whether an acceptor application runs on each endpoint
    pub accept: [bool; 2],
    /// the acceptor pauses this many yields before each accept
    pub accept_pace: usize,
    /// run the black-box leak probe (Acknowledge(id,0) for every id ever used) at the end
    pub probe_leaks: bool,
    /// once an endpoint's connection task has returned, its application makes fresh calls
    /// (new_stream_channel, request_bind, send_datagram): "every later operation completes"
    #[serde(default)]
    pub late_ops: bool,
    /// extra acceptor tasks per endpoint calling accept_stream_channel concurrently with the first
    /// (the call takes `&self`); each takes one stream and then stops accepting
    #[serde(default)]
    pub extra_acceptors: [usize; 2],
    /// end of the run in virtual ms (0 = the default, far beyond anything finite); needed when
    /// something periodic (keepalive) keeps the clock busy for ever
    #[serde(default)]
    pub horizon_ms: u64,
    /// the two connection tasks stay subject to tokio's cooperative budget (see
    /// `Sim::spawn_constrained`): operations on tokio's channels and timers inside them may
    /// return a spurious `Pending` when a lot has happened since the runtime was last returned to
    #[serde(default)]
    pub coop: bool,
    /// now and then a connection task is polled although nothing has woken it (see `Sim::spurious`)
    #[serde(default)]
    pub spurious: bool,
}
impl Plan {
    pub fn base() -> Plan {
        Plan {
            eps: [EpCfg::default(), EpCfg::default()],
            link: LinkCfg { window: 1 << 20, latency_ms: 0, drop_after_close: false, ws_client: 0, bp_flush: false },
            weights: [4; NCLS],
            streams: vec![],
            dg_tx: vec![],
            dg_rx: vec![],
            binds: vec![],
            responders: vec![],
            faults: vec![],
            accept: [true, true],
            accept_pace: 0,
            probe_leaks: false,
            late_ops: false,
            extra_acceptors: [0, 0],
            horizon_ms: 0,
            coop: false,
            spurious: false,
        }
    }
}

// ------------------------------------------------------------------ ledger

#[derive(Clone, Debug)]
pub struct WriteRec {
    pub inv: u64,
    pub ret: Option<u64>,
    pub n: usize,
    /// Some(Ok(k)) / Some(Err(kind))
    pub res: Option<Result<usize, std::io::ErrorKind>>,
    pub vectored: bool,
    /// cumulative bytes accepted on this side before this write
    pub off: u64,
}
#[derive(Default, Debug)]
pub struct SideLed {
    pub got_stream: Option<u64>,
    pub writes: Vec<WriteRec>,
    pub accepted: u64,
    /// (seq, cumulative bytes) at every read return / consume
    pub reads: Vec<(u64, u64)>,
    pub read_total: u64,
    pub in_read: Option<u64>,
    pub eof: Option<u64>,
    /// reader actor ended without having seen EOF (application stopped reading)
    pub r_stopped: Option<u64>,
    pub w_done: Option<u64>,
    pub shutdown_inv: Option<u64>,
    pub shutdown_ret: Option<u64>,
    /// bytes accepted at the moment shutdown was called
    pub accepted_at_shutdown: u64,
    pub dropped: Option<u64>,
    /// the stream was dropped without a completed shutdown
    pub aborted: bool,
    pub halves_left: u8,
}
#[derive(Default, Debug)]
pub struct StreamLed {
    pub open_inv: Option<u64>,
    pub open_ret: Option<(u64, Result<(), String>)>,
    pub sides: [SideLed; 2],
    /// flow id as printed by the stream object's Debug impl at the opener (cross-checked with the wire)
    pub flow_dbg: Option<u32>,
}
#[derive(Clone, Debug, PartialEq)]
pub struct DgVal {
    pub flow: u32,
    pub host: Vec<u8>,
    pub port: u16,
    pub data: Vec<u8>,
}
#[derive(Default, Debug)]
pub struct DgLed {
    /// per sending endpoint: (ret seq, value, result)
    pub sent: [Vec<(u64, DgVal, Result<(), String>)>; 2],
    /// per receiving endpoint: (seq, value)
    pub taken: [Vec<(u64, DgVal)>; 2],
    pub rx_pending: [Option<u64>; 2],
    pub rx_closed: [Option<u64>; 2],
    pub rx_stopped: [bool; 2],
}
#[derive(Clone, Debug)]
pub struct BindSeen {
    pub seq: u64,
    pub flow: u32,
    pub ty: u8,
    pub host: Vec<u8>,
    pub port: u16,
    pub action: Answer,
    pub replied_at: Option<u64>,
    pub reply: Option<bool>,
}
#[derive(Default, Debug)]
pub struct BindLed {
    /// per request index: (inv, host, port, ty)
    pub reqs: Vec<(u64, Vec<u8>, u16, u8, usize)>,
    /// per request index: (ret seq, result)
    pub results: Vec<Option<(u64, Result<bool, String>)>>,
    pub seen: [Vec<BindSeen>; 2],
    pub resp_pending: [Option<u64>; 2],
    pub resp_closed: [Option<u64>; 2],
    /// number of next_bind_request calls currently waiting per endpoint
    pub resp_waiting: [u32; 2],
}
#[derive(Default)]
pub struct Ledger {
    pub streams: Vec<StreamLed>,
    pub ghosts: Vec<(usize, Vec<u8>, u16)>,
    pub dg: DgLed,
    pub bind: BindLed,
    pub viol: Vec<Violation>,
    pub task_end: [Option<(u64, String)>; 2],
    pub mux_dropped: [Option<u64>; 2],
    pub accept_pending: [Option<u64>; 2],
    /// number of accept calls currently pending per endpoint
    pub accept_pending_n: [u32; 2],
    pub accept_closed: [Option<u64>; 2],
    pub probes: std::collections::BTreeMap<String, u64>,
    /// stream objects kept alive to the end of the run
    pub held: Vec<MuxStream>,
    pub held_binds: Vec<penguin_mux::BindRequest<'static>>,
    /// calls made after the connection task returned: (name, invoked, returned, result)
    pub late: [Vec<(&'static str, u64, Option<u64>, String)>; 2],
}
impl Ledger {
    pub fn violate(&mut self, class: &str, msg: String) {
        if self.viol.len() < 32 && !self.viol.iter().any(|v| v.class == class) {
            self.viol.push(Violation::new(class, msg));
        }
    }
    pub fn probe(&mut self, name: &str) {
        *self.probes.entry(name.to_string()).or_insert(0) += 1;
    }
}
pub type Led = Rc<RefCell<Ledger>>;

/// payload byte `i` of stream `tag`, direction `dir` (0 = opener -> acceptor)
#[inline]
pub fn pbyte(tag: usize, dir: usize, i: u64) -> u8 {
    let mut x = ((tag as u64) << 40) ^ ((dir as u64) << 36) ^ i;
    x ^= x >> 33;
    x = x.wrapping_mul(0xff51_afd7_ed55_8ccd);
    x ^= x >> 29;
    x as u8
}
pub fn host_for(tag: usize, pad: usize) -> Vec<u8> {
    let mut h = format!("s{tag}:").into_bytes();
    h.extend(std::iter::repeat_n(b'x', pad));
    h
}
pub fn tag_of_host(h: &[u8]) -> Option<usize> {
    if h.first() != Some(&b's') {
        return None;
    }
    let end = h.iter().position(|b| *b == b':')?;
    std::str::from_utf8(&h[1..end]).ok()?.parse().ok()
}
pub fn flow_of_debug(s: &MuxStream) -> Option<u32> {
    let d = format!("{s:?}");
    let i = d.find("flow_id: ")? + 9;
    u32::from_str_radix(d.get(i..i + 8)?, 16).ok()
}

// ------------------------------------------------------------------ cancellation (mux drop)

#[derive(Clone, Default)]
pub struct Cancel {
    flag: Rc<Cell<bool>>,
    wakers: Rc<RefCell<Vec<Waker>>>,
}
impl Cancel {
    pub fn cancel(&self) {
        self.flag.set(true);
        for w in self.wakers.borrow_mut().drain(..) {
            w.wake();
        }
    }
    pub fn is_cancelled(&self) -> bool {
        self.flag.get()
    }
    /// run `f` unless cancelled; `None` = cancelled (the future is dropped = the call is cancelled)
    pub async fn run<T>(&self, f: impl Future<Output = T>) -> Option<T> {
        let mut f = std::pin::pin!(f);
        std::future::poll_fn(|cx| {
            if self.flag.get() {
                return Poll::Ready(None);
            }
            if let Poll::Ready(v) = f.as_mut().poll(cx) {
                return Poll::Ready(Some(v));
            }
            self.wakers.borrow_mut().push(cx.waker().clone());
            Poll::Pending
        })
        .await
    }
}

// ------------------------------------------------------------------ stream side context

pub struct SideCtx {
    pub tag: usize,
    pub side: usize,
    /// direction index of bytes written by this side (0 = opener -> acceptor)
    pub wdir: usize,
    pub stream: RefCell<Option<MuxStream>>,
    pub wakers: RefCell<Vec<Waker>>,
    pub led: Led,
    pub seq: Seq,
    pub hold: bool,
}
impl SideCtx {
    fn wake_siblings(&self) {
        for w in self.wakers.borrow_mut().drain(..) {
            w.wake();
        }
    }
    /// drop the stream object now
    fn drop_stream(&self) {
        let s = self.stream.borrow_mut().take();
        if let Some(s) = s {
            let now = self.seq.tick();
            let mut l = self.led.borrow_mut();
            let sl = &mut l.streams[self.tag].sides[self.side];
            sl.dropped = Some(now);
            sl.aborted = sl.shutdown_ret.is_none();
            drop(l);
            drop(s);
        }
        self.wake_siblings();
    }
    fn half_done(&self) {
        let left = {
            let mut l = self.led.borrow_mut();
            let sl = &mut l.streams[self.tag].sides[self.side];
            sl.halves_left = sl.halves_left.saturating_sub(1);
            sl.halves_left
        };
        if left == 0 {
            if self.hold {
                if let Some(s) = self.stream.borrow_mut().take() {
                    self.led.borrow_mut().held.push(s);
                }
            } else {
                self.drop_stream();
            }
        }
    }
    /// poll the stream if it is still there; `None` = the stream object is gone
    async fn with<T>(&self, mut f: impl FnMut(Pin<&mut MuxStream>, &mut Context<'_>) -> Poll<T>) -> Option<T> {
        std::future::poll_fn(|cx| {
            let mut g = self.stream.borrow_mut();
            match g.as_mut() {
                None => Poll::Ready(None),
                Some(s) => match f(Pin::new(s), cx) {
                    Poll::Ready(v) => Poll::Ready(Some(v)),
                    Poll::Pending => {
                        drop(g);
                        self.wakers.borrow_mut().push(cx.waker().clone());
                        Poll::Pending
                    }
                },
            }
        })
        .await
    }
}

pub async fn writer_actor(cx: Rc<SideCtx>, ops: Vec<WOp>) {
    let (tag, side) = (cx.tag, cx.side);
    'ops: for op in ops {
        match op {
            WOp::Write(n) => {
                let off = cx.led.borrow().streams[tag].sides[side].accepted;
                let data: Vec<u8> = (0..n as u64).map(|i| pbyte(tag, cx.wdir, off + i)).collect();
                let inv = cx.seq.tick();
                let idx = {
                    let mut l = cx.led.borrow_mut();
                    let w = &mut l.streams[tag].sides[side].writes;
                    w.push(WriteRec { inv, ret: None, n, res: None, vectored: false, off });
                    w.len() - 1
                };
                let Some(res) = cx.with(|s, c| s.poll_write(c, &data)).await else {
                    // the stream object went away under the call: the call never completed (cancelled)
                    cx.led.borrow_mut().streams[tag].sides[side].writes.truncate(idx);
                    break 'ops;
                };
                finish_write(&cx, idx, n, res);
            }
            WOp::WriteV(parts) => {
                let n: usize = parts.iter().sum();
                let off = cx.led.borrow().streams[tag].sides[side].accepted;
                let data: Vec<u8> = (0..n as u64).map(|i| pbyte(tag, cx.wdir, off + i)).collect();
                let inv = cx.seq.tick();
                let idx = {
                    let mut l = cx.led.borrow_mut();
                    let w = &mut l.streams[tag].sides[side].writes;
                    w.push(WriteRec { inv, ret: None, n, res: None, vectored: true, off });
                    w.len() - 1
                };
                let mut slices = vec![];
                let mut o = 0;
                for p in &parts {
                    slices.push(IoSlice::new(&data[o..o + p]));
                    o += p;
                }
                let Some(res) = cx.with(|s, c| s.poll_write_vectored(c, &slices)).await else {
                    cx.led.borrow_mut().streams[tag].sides[side].writes.truncate(idx);
                    break 'ops;
                };
                finish_write(&cx, idx, n, res);
            }
            WOp::Flush => {
                let Some(r) = cx.with(|s, c| s.poll_flush(c)).await else { break 'ops };
                if let Err(e) = r {
                    cx.led.borrow_mut().violate("C05:flush-error", format!("flush on stream {tag} side {side} failed: {e}"));
                }
            }
            WOp::Shutdown => {
                let inv = cx.seq.tick();
                {
                    let mut l = cx.led.borrow_mut();
                    let sl = &mut l.streams[tag].sides[side];
                    if sl.shutdown_inv.is_none() {
                        sl.shutdown_inv = Some(inv);
                        sl.accepted_at_shutdown = sl.accepted;
                    }
                }
                let Some(r) = cx.with(|s, c| s.poll_shutdown(c)).await else { break 'ops };
                let ret = cx.seq.tick();
                let mut l = cx.led.borrow_mut();
                if r.is_ok() {
                    let sl = &mut l.streams[tag].sides[side];
                    if sl.shutdown_ret.is_none() {
                        sl.shutdown_ret = Some(ret);
                    }
                }
            }
            WOp::Yield(k) => sim_yields(k).await,
            WOp::Sleep(ms) => tokio::time::sleep(Duration::from_millis(ms)).await,
            WOp::Drop => {
                cx.drop_stream();
                break 'ops;
            }
            WOp::AwaitOpened(t) => {
                for _ in 0..20_000 {
                    if cx.led.borrow().streams.get(t).is_none_or(|s| s.open_ret.is_some()) || cx.stream.borrow().is_none() {
                        break;
                    }
                    tokio::time::sleep(Duration::from_millis(1)).await;
                }
            }
            WOp::AwaitEof => {
                // (polling on simulated time, not on scheduler rounds: an always-runnable task
                // would keep the clock from advancing and in-flight messages from arriving)
                for _ in 0..20_000 {
                    if cx.led.borrow().streams[tag].sides[side].eof.is_some() || cx.stream.borrow().is_none() {
                        break;
                    }
                    tokio::time::sleep(Duration::from_millis(1)).await;
                }
            }
        }
    }
    let now = cx.seq.tick();
    cx.led.borrow_mut().streams[tag].sides[side].w_done = Some(now);
    cx.half_done();
}

fn finish_write(cx: &SideCtx, idx: usize, n: usize, res: std::io::Result<usize>) {
    let ret = cx.seq.tick();
    let mut l = cx.led.borrow_mut();
    let shut = l.streams[cx.tag].sides[cx.side].shutdown_ret;
    let sl = &mut l.streams[cx.tag].sides[cx.side];
    let rec = &mut sl.writes[idx];
    rec.ret = Some(ret);
    match res {
        Ok(k) => {
            rec.res = Some(Ok(k));
            sl.accepted += k as u64;
            if k > n || (k < n && k == 0 && n > 0) {
                l.violate("C02:write-count", format!("write of {n} bytes on stream {} returned Ok({k})", cx.tag));
            } else if let Some(s) = shut {
                if s < rec_inv(&l, cx, idx) {
                    l.violate("C05:write-after-shutdown", format!("write started after the local shutdown completed returned Ok({k}) on stream {}", cx.tag));
                }
            }
        }
        Err(e) => {
            rec.res = Some(Err(e.kind()));
            if e.kind() != std::io::ErrorKind::BrokenPipe {
                l.violate("C05:write-error-kind", format!("write on stream {} failed with {:?}, not BrokenPipe", cx.tag, e.kind()));
            }
        }
    }
}
fn rec_inv(l: &Ledger, cx: &SideCtx, idx: usize) -> u64 {
    l.streams[cx.tag].sides[cx.side].writes[idx].inv
}

pub async fn reader_actor(cx: Rc<SideCtx>, ops: Vec<ROp>) {
    let (tag, side) = (cx.tag, cx.side);
    let rdir = 1 - cx.wdir;
    let mut gone = false;
    'ops: for op in ops {
        match op {
            ROp::Read { buf, times } => {
                for _ in 0..times {
                    match read_once(&cx, rdir, buf.max(1)).await {
                        None => {
                            gone = true;
                            break 'ops;
                        }
                        Some(true) => break 'ops,
                        Some(false) => {}
                    }
                }
            }
            ROp::ReadEof { buf } => loop {
                match read_once(&cx, rdir, buf.max(1)).await {
                    None => {
                        gone = true;
                        break 'ops;
                    }
                    Some(true) => break 'ops,
                    Some(false) => {}
                }
            },
            ROp::Fill { consume, times } => {
                for _ in 0..times {
                    match fill_once(&cx, rdir, consume).await {
                        None => {
                            gone = true;
                            break 'ops;
                        }
                        Some(true) => break 'ops,
                        Some(false) => {}
                    }
                }
            }
            ROp::FillEof { consume } => loop {
                match fill_once(&cx, rdir, consume).await {
                    None => {
                        gone = true;
                        break 'ops;
                    }
                    Some(true) => break 'ops,
                    Some(false) => {}
                }
            },
            ROp::Yield(k) => sim_yields(k).await,
            ROp::Sleep(ms) => tokio::time::sleep(Duration::from_millis(ms)).await,
            ROp::Drop => {
                cx.drop_stream();
                gone = true;
                break 'ops;
            }
            ROp::AwaitOpened(t) => {
                for _ in 0..20_000 {
                    if cx.led.borrow().streams.get(t).is_none_or(|s| s.open_ret.is_some()) || cx.stream.borrow().is_none() {
                        break;
                    }
                    tokio::time::sleep(Duration::from_millis(1)).await;
                }
            }
        }
    }
    let _ = gone;
    let now = cx.seq.tick();
    {
        let mut l = cx.led.borrow_mut();
        let sl = &mut l.streams[tag].sides[side];
        sl.in_read = None;
        if sl.eof.is_none() {
            sl.r_stopped = Some(now);
        }
    }
    cx.half_done();
}

/// one `read`; Some(true) = EOF, Some(false) = data, None = stream object gone
async fn read_once(cx: &SideCtx, rdir: usize, bufsz: usize) -> Option<bool> {
    let mut buf = vec![0u8; bufsz];
    let inv = cx.seq.tick();
    cx.led.borrow_mut().streams[cx.tag].sides[cx.side].in_read = Some(inv);
    let r = cx
        .with(|s, c| {
            let mut rb = ReadBuf::new(&mut buf);
            match s.poll_read(c, &mut rb) {
                Poll::Ready(Ok(())) => Poll::Ready(Ok(rb.filled().len())),
                Poll::Ready(Err(e)) => Poll::Ready(Err(e)),
                Poll::Pending => Poll::Pending,
            }
        })
        .await?;
    cx.led.borrow_mut().streams[cx.tag].sides[cx.side].in_read = None;
    match r {
        Ok(0) => {
            on_eof(cx);
            Some(true)
        }
        Ok(k) => {
            on_data(cx, rdir, &buf[..k]);
            Some(false)
        }
        Err(e) => {
            cx.led.borrow_mut().violate("C02:read-error", format!("read on stream {} returned error {e}", cx.tag));
            Some(true)
        }
    }
}
async fn fill_once(cx: &SideCtx, rdir: usize, consume: usize) -> Option<bool> {
    let inv = cx.seq.tick();
    cx.led.borrow_mut().streams[cx.tag].sides[cx.side].in_read = Some(inv);
    let r = cx
        .with(|mut s, c| match s.as_mut().poll_fill_buf(c) {
            Poll::Ready(Ok(b)) => {
                let k = if consume == 0 { b.len() } else { consume.min(b.len()) };
                let v = b[..k].to_vec();
                let was_empty = b.is_empty();
                s.consume(k);
                Poll::Ready(Ok((v, was_empty)))
            }
            Poll::Ready(Err(e)) => Poll::Ready(Err(e)),
            Poll::Pending => Poll::Pending,
        })
        .await?;
    cx.led.borrow_mut().streams[cx.tag].sides[cx.side].in_read = None;
    match r {
        Ok((_, true)) => {
            on_eof(cx);
            Some(true)
        }
        Ok((v, false)) => {
            on_data(cx, rdir, &v);
            Some(false)
        }
        Err(e) => {
            cx.led.borrow_mut().violate("C02:read-error", format!("fill_buf on stream {} returned error {e}", cx.tag));
            Some(true)
        }
    }
}
fn on_data(cx: &SideCtx, rdir: usize, got: &[u8]) {
    let now = cx.seq.tick();
    let mut l = cx.led.borrow_mut();
    let off = l.streams[cx.tag].sides[cx.side].read_total;
    let peer_acc = l.streams[cx.tag].sides[1 - cx.side].accepted;
    // a write may be in progress whose bytes are already on the wire although the call has not
    // returned yet: those bytes are "being accepted"; the prefix rule allows them
    let inflight: u64 = l.streams[cx.tag].sides[1 - cx.side].writes.iter().filter(|w| w.ret.is_none()).map(|w| w.n as u64).sum();
    for (i, b) in got.iter().enumerate() {
        if *b != pbyte(cx.tag, rdir, off + i as u64) {
            l.violate("C02:content", format!("stream {} side {}: byte at offset {} is {:#x}, expected {:#x} (corruption, reordering, duplication or cross-talk)", cx.tag, cx.side, off + i as u64, b, pbyte(cx.tag, rdir, off + i as u64)));
            break;
        }
    }
    let tot = off + got.len() as u64;
    if tot > peer_acc + inflight {
        l.violate("C02:prefix", format!("stream {} side {}: read {tot} bytes but the peer's writes accepted only {peer_acc}", cx.tag, cx.side));
    }
    let sl = &mut l.streams[cx.tag].sides[cx.side];
    sl.read_total = tot;
    sl.reads.push((now, tot));
}
fn on_eof(cx: &SideCtx) {
    let now = cx.seq.tick();
    let mut l = cx.led.borrow_mut();
    l.streams[cx.tag].sides[cx.side].eof = Some(now);
}

// ------------------------------------------------------------------ the run

pub struct DuoRun {
    pub plan: Plan,
    pub led: Led,
    pub link: L,
    pub end: End,
    pub steps: u64,
    pub digest: u64,
    pub decisions: Vec<u32>,
    pub unfinished: Vec<String>,
    pub fired: Vec<(String, u64)>,
    pub sim_ms: u64,
    pub probe_from: usize,
    pub trace: Option<Vec<String>>,
    pub budget_exhausted: u64,
    pub spurious_polls: u64,
}

fn src_mode(x: u8) -> SrcMode {
    match x {
        0 => SrcMode::Normal,
        1 => SrcMode::Err,
        2 => SrcMode::Eof,
        _ => SrcMode::Silent,
    }
}
pub fn garbage_bytes(kind: u8) -> Vec<u8> {
    match kind % 6 {
        0 => vec![0x7f, 1, 2],                              // unknown opcode, too short
        1 => vec![0x71, 0, 0, 0, 1, 0, 0],                  // truncated Acknowledge
        2 => vec![0x14, 0, 0, 0, 1, b'x'],                  // wrong version nibble
        3 => vec![],                                        // empty message
        4 => vec![0x75, 0, 0, 0, 9, 2, 0, 80, b'h'],        // Bind with bind type 2
        _ => vec![0x76, 0, 0, 0, 9, 200, 0, 80, b'h', b'i'], // Datagram whose host length exceeds the frame
    }
}

pub const HORIZON: Duration = Duration::from_secs(2_000_000);
pub const BARRIER: Duration = Duration::from_secs(1000);

pub fn run(plan: &Plan, sched: &Sched, record: bool) -> DuoRun {
    block_on(run_async(plan.clone(), sched.clone(), record))
}

async fn run_async(plan: Plan, sched: Sched, record: bool) -> DuoRun {
    let seq = Seq::default();
    let lat_seed = match &sched {
        Sched::Seeded(s) => *s,
        Sched::Recorded(_) => 7,
    };
    let link = Link::new(plan.link.window.max(1), plan.link.latency_ms, seq.clone(), lat_seed ^ 0x1a7);
    link.lock().unwrap().drop_data_after_close_sent = plan.link.drop_after_close;
    link.lock().unwrap().waits_for_transport_close = [plan.link.ws_client == 1, plan.link.ws_client == 2];
    link.lock().unwrap().backpressure_in_flush = plan.link.bp_flush;
    let world = Rc::new(RefCell::new(LinkWorld::new(link.clone())));
    let mut sim = Sim::new(&sched, plan.weights, record, world.clone(), seq.clone());
    sim.spurious = plan.spurious;
    let led: Led = Rc::new(RefCell::new(Ledger::default()));
    {
        let mut l = led.borrow_mut();
        for _ in &plan.streams {
            l.streams.push(StreamLed::default());
        }
        l.bind.results = vec![None; plan.binds.len()];
    }
    // ---- endpoints
    let muxes: Rc<RefCell<[Option<Rc<Mux>>; 2]>> = Rc::new(RefCell::new([None, None]));
    let cancels = [Cancel::default(), Cancel::default()];
    let task_cancels = [Cancel::default(), Cancel::default()];
    for me in 0..2 {
        let cfg = &plan.eps[me];
        let rng = ScriptRng { vals: Arc::new(Mutex::new(cfg.ids.iter().copied().collect())), base: ((me as u32) + 1) << 28, ctr: 0 };
        let (m, t) = Multiplexor::new_detailed::<_, SimInstant>(SimWs { link: link.clone(), me }, cfg.options(), rng);
        let m = Rc::new(m);
        let (led2, seq2, weak, cancel, late, tcancel) = (led.clone(), seq.clone(), Rc::downgrade(&m), cancels[me].clone(), plan.late_ops, task_cancels[me].clone());
        let conn_task = async move {
            // `None`: the task future was dropped before it finished (aborted)
            let r = tcancel.run(t.into_task()).await;
            let now = seq2.tick();
            led2.borrow_mut().task_end[me] = Some((now, match &r {
                Some(r) => format!("{r:?}"),
                None => "Aborted".to_string(),
            }));
            if !late {
                return;
            }
            // the application keeps using its handle after the connection is gone
            let Some(m) = weak.upgrade() else { return };
            for name in ["new_stream_channel", "request_bind", "send_datagram", "request_bind"] {
                sim_yield().await;
                let inv = seq2.tick();
                let k = {
                    let mut l = led2.borrow_mut();
                    l.late[me].push((name, inv, None, String::new()));
                    l.late[me].len() - 1
                };
                let res = match name {
                    "new_stream_channel" => cancel.run(m.new_stream_channel(b"late", 1)).await.map(|r| match r {
                        Ok(_) => "Ok(stream)".to_string(),
                        Err(e) => format!("Err({e:?})"),
                    }),
                    "request_bind" => cancel.run(m.request_bind(b"late", 1, BindType::Stream)).await.map(|r| format!("{r:?}")),
                    _ => cancel.run(m.send_datagram(penguin_mux::Datagram { flow_id: 7, target_host: bytes::Bytes::from_static(b"late"), target_port: 1, data: bytes::Bytes::from_static(b"late") })).await.map(|r| format!("{r:?}")),
                };
                let now = seq2.tick();
                let mut l = led2.borrow_mut();
                match res {
                    None => {
                        l.late[me][k].2 = Some(now);
                        l.late[me][k].3 = "cancelled".into();
                        return;
                    }
                    Some(x) => {
                        l.late[me][k].2 = Some(now);
                        l.late[me][k].3 = x;
                    }
                }
            }
        };
        let (name, cls) = (format!("conn{me}"), if me == 0 { CLS_CONN0 } else { CLS_CONN1 });
        if plan.coop {
            sim.spawn_constrained(&name, cls, conn_task);
        } else {
            sim.spawn(&name, cls, conn_task);
        }
        muxes.borrow_mut()[me] = Some(m);
    }
    let sp = sim.spawner();
    // ---- acceptors
    for me in 0..2 {
        if !plan.accept[me] {
            continue;
        }
      for k in 0..(1 + plan.extra_acceptors[me].min(3)) {
        let Some(m) = muxes.borrow()[me].clone() else { continue };
        let (led2, seq2, sp2, plan2, cancel) = (led.clone(), seq.clone(), sp.clone(), plan.clone(), cancels[me].clone());
        sim.spawn(&if k == 0 { format!("acceptor{me}") } else { format!("acceptor{me}.{k}") }, CLS_OTHER, async move {
            loop {
                sim_yields(plan2.accept_pace).await;
                let inv = seq2.tick();
                {
                    let mut l = led2.borrow_mut();
                    l.accept_pending[me] = Some(inv);
                    l.accept_pending_n[me] += 1;
                }
                let r = cancel.run(m.accept_stream_channel()).await;
                {
                    let mut l = led2.borrow_mut();
                    l.accept_pending_n[me] -= 1;
                    if l.accept_pending_n[me] == 0 {
                        l.accept_pending[me] = None;
                    }
                }
                match r {
                    None => break,
                    Some(Ok(s)) => {
                        let now = seq2.tick();
                        // match the accepted stream to a request of the peer that has not been matched yet:
                        // exactly the requested host bytes and port
                        let tag = plan2.streams.iter().enumerate().position(|(t, st)| st.opener.min(1) == 1 - me && s.dest_host[..] == st.host(t)[..] && s.dest_port == st.port && led2.borrow().streams[t].open_inv.is_some() && led2.borrow().streams[t].sides[1].got_stream.is_none());
                        let ok = tag.is_some();
                        if !ok {
                            let mut l = led2.borrow_mut();
                            l.ghosts.push((me, s.dest_host.to_vec(), s.dest_port));
                            l.violate("C07:ghost-accept", format!("endpoint {me} accepted a stream (host {:?}, port {}) that matches no pending request exactly once", String::from_utf8_lossy(&s.dest_host), s.dest_port));
                            l.held.push(s);
                            continue;
                        }
                        let tag = tag.unwrap();
                        let sp3 = &plan2.streams[tag].sides[1];
                        {
                            let mut l = led2.borrow_mut();
                            let sl = &mut l.streams[tag].sides[1];
                            sl.got_stream = Some(now);
                            sl.halves_left = 2;
                        }
                        let cx = Rc::new(SideCtx { tag, side: 1, wdir: 1, stream: RefCell::new(Some(s)), wakers: RefCell::new(vec![]), led: led2.clone(), seq: seq2.clone(), hold: sp3.hold });
                        sp2.spawn(&format!("w{tag}.1"), CLS_WRITER, writer_actor(cx.clone(), sp3.w.clone()));
                        sp2.spawn(&format!("r{tag}.1"), CLS_READER, reader_actor(cx, sp3.r.clone()));
                        // an extra acceptor is a worker that takes one stream and is then busy
                        // with it for good; the first acceptor keeps accepting
                        if k > 0 {
                            break;
                        }
                    }
                    Some(Err(e)) => {
                        let now = seq2.tick();
                        let mut l = led2.borrow_mut();
                        l.accept_closed[me] = Some(now);
                        if !matches!(e, penguin_mux::Error::Closed) {
                            l.violate("C08:accept-error-kind", format!("accept_stream_channel failed with {e:?}, not Closed"));
                        }
                        break;
                    }
                }
            }
        });
      }
    }
    // ---- openers
    for (tag, st) in plan.streams.iter().enumerate() {
        let me = st.opener.min(1);
        let Some(m) = muxes.borrow()[me].clone() else { continue };
        let (led2, seq2, sp2, st2, cancel) = (led.clone(), seq.clone(), sp.clone(), st.clone(), cancels[me].clone());
        let link2 = link.clone();
        let nstreams = plan.streams.len();
        let openers: Vec<usize> = plan.streams.iter().map(|x| x.opener.min(1)).collect();
        sim.spawn(&format!("open{tag}"), CLS_OTHER, async move {
            if let Some(a) = st2.after {
                if a < nstreams && a != tag {
                    // wait until both applications let go of stream `a` (or it can never exist), then a quiescence barrier
                    loop {
                        let done = {
                            let l = led2.borrow();
                            let s = &l.streams[a];
                            let failed = matches!(s.open_ret, Some((_, Err(_))));
                            let side_gone = |x: &SideLed| x.dropped.is_some();
                            failed || (side_gone(&s.sides[0]) && side_gone(&s.sides[1]))
                        };
                        tokio::time::sleep(BARRIER).await;
                        if done || cancel.is_cancelled() {
                            break;
                        }
                    }
                }
            }
            if let Some(a) = st2.after_let_go {
                if a < nstreams && a != tag {
                    let opener_of_a = openers[a];
                    let mut guard = 0;
                    loop {
                        let gone = {
                            let l = led2.borrow();
                            let s = &l.streams[a];
                            let side = if opener_of_a == me { 0 } else { 1 };
                            matches!(s.open_ret, Some((_, Err(_)))) || s.sides[side].dropped.is_some()
                        };
                        guard += 1;
                        if gone || cancel.is_cancelled() || guard > 20_000 {
                            break;
                        }
                        tokio::time::sleep(Duration::from_millis(1)).await;
                    }
                    tokio::time::sleep(Duration::from_millis(50)).await;
                }
            }
            if let Some(a) = st2.after_abort {
                if a < nstreams && a != tag {
                    let mut guard = 0;
                    loop {
                        // the abort has taken effect at this endpoint (its slot is free): it has
                        // sent the Reset itself, or consumed the peer's
                        let gone = {
                            let l = led2.borrow();
                            let s = &l.streams[a];
                            matches!(s.open_ret, Some((_, Err(_))))
                                || link2.lock().unwrap().evs.iter().any(|e| matches!(&*e.w, Wire::Frame(crate::refcodec::RFrame::Reset { .. })) && ((e.from == me && e.stage == Stage::Sent) || (e.from != me && e.stage == Stage::Consumed)))
                        };
                        guard += 1;
                        if gone || cancel.is_cancelled() || guard > 20_000 {
                            break;
                        }
                        tokio::time::sleep(Duration::from_millis(1)).await;
                    }
                }
            }
            sim_yields(st2.delay).await;
            let inv = seq2.tick();
            led2.borrow_mut().streams[tag].open_inv = Some(inv);
            let host = st2.host(tag);
            let r = cancel.run(m.new_stream_channel(&host, st2.port)).await;
            drop(m);
            let now = seq2.tick();
            match r {
                None => {
                    led2.borrow_mut().streams[tag].open_ret = Some((now, Err("cancelled".into())));
                }
                Some(Err(e)) => {
                    led2.borrow_mut().streams[tag].open_ret = Some((now, Err(format!("{e:?}"))));
                }
                Some(Ok(s)) => {
                    {
                        let mut l = led2.borrow_mut();
                        l.streams[tag].open_ret = Some((now, Ok(())));
                        l.streams[tag].flow_dbg = flow_of_debug(&s);
                        let sl = &mut l.streams[tag].sides[0];
                        sl.got_stream = Some(now);
                        sl.halves_left = 2;
                    }
                    let sp3 = &st2.sides[0];
                    let cx = Rc::new(SideCtx { tag, side: 0, wdir: 0, stream: RefCell::new(Some(s)), wakers: RefCell::new(vec![]), led: led2.clone(), seq: seq2.clone(), hold: sp3.hold });
                    sp2.spawn(&format!("w{tag}.0"), CLS_WRITER, writer_actor(cx.clone(), sp3.w.clone()));
                    sp2.spawn(&format!("r{tag}.0"), CLS_READER, reader_actor(cx, sp3.r.clone()));
                }
            }
        });
    }
    // ---- datagram senders
    for (k, tx) in plan.dg_tx.iter().enumerate() {
        let me = tx.from.min(1);
        let Some(m) = muxes.borrow()[me].clone() else { continue };
        let (led2, seq2, tx2, cancel) = (led.clone(), seq.clone(), tx.clone(), cancels[me].clone());
        sim.spawn(&format!("dgtx{k}"), CLS_OTHER, async move {
            for (i, it) in tx2.items.iter().enumerate() {
                sim_yields(it.yields).await;
                if cancel.is_cancelled() {
                    break;
                }
                let host: Vec<u8> = (0..it.hlen).map(|j| b'a' + ((j + i + k) % 26) as u8).collect();
                let data: Vec<u8> = (0..it.len).map(|j| pbyte(1000 + k, i % 7, j as u64)).collect();
                let val = DgVal { flow: it.flow, host: host.clone(), port: it.port, data: data.clone() };
                let r = m.send_datagram(Datagram { flow_id: it.flow, target_host: Bytes::from(host), target_port: it.port, data: Bytes::from(data) }).await;
                let now = seq2.tick();
                led2.borrow_mut().dg.sent[me].push((now, val, r.map_err(|e| format!("{e:?}"))));
            }
        });
    }
    // ---- datagram receivers
    for (k, rx) in plan.dg_rx.iter().enumerate() {
        let me = rx.ep.min(1);
        let Some(m) = muxes.borrow()[me].clone() else { continue };
        let (led2, seq2, rx2, cancel) = (led.clone(), seq.clone(), rx.clone(), cancels[me].clone());
        sim.spawn(&format!("dgrx{k}"), CLS_OTHER, async move {
            let mut n = 0usize;
            loop {
                if let Some(t) = rx2.take {
                    if n >= t {
                        led2.borrow_mut().dg.rx_stopped[me] = true;
                        break;
                    }
                }
                if !rx2.pace.is_empty() {
                    sim_yields(rx2.pace[n % rx2.pace.len()]).await;
                }
                let inv = seq2.tick();
                led2.borrow_mut().dg.rx_pending[me] = Some(inv);
                let r = cancel.run(m.get_datagram()).await;
                led2.borrow_mut().dg.rx_pending[me] = None;
                let now = seq2.tick();
                match r {
                    None => {
                        led2.borrow_mut().dg.rx_stopped[me] = true;
                        break;
                    }
                    Some(Ok(d)) => {
                        n += 1;
                        led2.borrow_mut().dg.taken[me].push((now, DgVal { flow: d.flow_id, host: d.target_host.to_vec(), port: d.target_port, data: d.data.to_vec() }));
                    }
                    Some(Err(e)) => {
                        let mut l = led2.borrow_mut();
                        l.dg.rx_closed[me] = Some(now);
                        if !matches!(e, penguin_mux::Error::Closed) {
                            l.violate("C08:datagram-error-kind", format!("get_datagram failed with {e:?}, not Closed"));
                        }
                        break;
                    }
                }
            }
        });
    }
    // ---- bind requesters
    for (k, b) in plan.binds.iter().enumerate() {
        let me = b.from.min(1);
        let Some(m) = muxes.borrow()[me].clone() else { continue };
        let (led2, seq2, b2, cancel) = (led.clone(), seq.clone(), b.clone(), cancels[me].clone());
        let mut host = format!("b{k}:").into_bytes();
        host.extend(std::iter::repeat_n(b'y', b.hlen));
        led.borrow_mut().bind.reqs.push((0, host.clone(), b.port, b.ty, me));
        let link2 = link.clone();
        sim.spawn(&format!("bind{k}"), CLS_OTHER, async move {
            if b2.after_abort {
                for _ in 0..20_000 {
                    let gone = link2.lock().unwrap().evs.iter().any(|e| matches!(&*e.w, Wire::Frame(crate::refcodec::RFrame::Reset { .. })) && ((e.from == me && e.stage == Stage::Sent) || (e.from != me && e.stage == Stage::Consumed)));
                    if gone || cancel.is_cancelled() {
                        break;
                    }
                    tokio::time::sleep(Duration::from_millis(1)).await;
                }
            }
            sim_yields(b2.delay).await;
            let inv = seq2.tick();
            led2.borrow_mut().bind.reqs[k].0 = inv;
            let ty = if b2.ty == 3 { BindType::Datagram } else { BindType::Stream };
            let r = cancel.run(m.request_bind(&host, b2.port, ty)).await;
            let now = seq2.tick();
            led2.borrow_mut().bind.results[k] = Some((now, match r {
                None => Err("cancelled".into()),
                Some(x) => x.map_err(|e| format!("{e:?}")),
            }));
        });
    }
    // ---- bind responders
    for (k, rsp) in plan.responders.iter().enumerate() {
        let me = rsp.ep.min(1);
        let Some(m) = muxes.borrow()[me].clone() else { continue };
        let (led2, seq2, rsp2, cancel) = (led.clone(), seq.clone(), rsp.clone(), cancels[me].clone());
        sim.spawn(&format!("responder{k}"), CLS_OTHER, async move {
            let mut later: Vec<(usize, usize, penguin_mux::BindRequest<'static>)> = vec![];
            let mut n = 0usize;
            loop {
                let inv = seq2.tick();
                {
                    let mut l = led2.borrow_mut();
                    l.bind.resp_pending[me] = Some(inv);
                    l.bind.resp_waiting[me] += 1;
                }
                let r = cancel.run(m.next_bind_request()).await;
                {
                    let mut l = led2.borrow_mut();
                    l.bind.resp_waiting[me] -= 1;
                    if l.bind.resp_waiting[me] == 0 {
                        l.bind.resp_pending[me] = None;
                    }
                }
                let now = seq2.tick();
                let req = match r {
                    None => break,
                    Some(Ok(req)) => req,
                    Some(Err(e)) => {
                        let mut l = led2.borrow_mut();
                        l.bind.resp_closed[me] = Some(now);
                        if !matches!(e, penguin_mux::Error::Closed | penguin_mux::Error::UnsupportedOperation) {
                            l.violate("C08:bind-error-kind", format!("next_bind_request failed with {e:?}"));
                        }
                        break;
                    }
                };
                let action = rsp2.answers.get(n).cloned().unwrap_or(Answer::Reject);
                n += 1;
                let idx = {
                    let mut l = led2.borrow_mut();
                    l.bind.seen[me].push(BindSeen { seq: now, flow: req.flow_id(), ty: req.bind_type() as u8, host: req.host().to_vec(), port: req.port(), action: action.clone(), replied_at: None, reply: None });
                    l.bind.seen[me].len() - 1
                };
                let answer = |req: penguin_mux::BindRequest<'static>, idx: usize, yes: bool| {
                    let ok = req.reply(yes).is_ok();
                    let t = seq2.tick();
                    let mut l = led2.borrow_mut();
                    l.bind.seen[me][idx].replied_at = Some(t);
                    l.bind.seen[me][idx].reply = Some(yes && ok);
                    if rsp2.forget_after_reply {
                        l.held_binds.push(req);
                    } else {
                        drop(l);
                        drop(req);
                    }
                };
                match action {
                    Answer::Accept => answer(req, idx, true),
                    Answer::Reject => answer(req, idx, false),
                    Answer::Drop => {
                        let t = seq2.tick();
                        let mut l = led2.borrow_mut();
                        l.bind.seen[me][idx].replied_at = Some(t);
                        l.bind.seen[me][idx].reply = Some(false);
                        drop(l);
                        drop(req);
                    }
                    Answer::Hold => led2.borrow_mut().held_binds.push(req),
                    Answer::AcceptLater(k) => later.push((n + k, idx, req)),
                }
                let mut i = 0;
                while i < later.len() {
                    if later[i].0 <= n {
                        let (_, idx, req) = later.remove(i);
                        answer(req, idx, true);
                    } else {
                        i += 1;
                    }
                }
                sim_yields(rsp2.yields).await;
                if rsp2.oneshot {
                    break;
                }
            }
            // requests still parked when the responder stops are accepted now (the connection may be gone)
            for (_, idx, req) in later {
                let ok = req.reply(true).is_ok();
                let t = seq2.tick();
                let mut l = led2.borrow_mut();
                l.bind.seen[me][idx].replied_at = Some(t);
                l.bind.seen[me][idx].reply = Some(ok);
                l.held_binds.push(req);
            }
        });
    }
    // ---- faults
    for f in &plan.faults {
        let mut w = world.borrow_mut();
        match &f.kind {
            FaultKind::PeerClose { to } => w.faults.push((f.at, FaultAct::InjectClose { from: 1 - to.min(&1) }, false)),
            FaultKind::Cut { from, sink_err, src, drop_inflight } => w.faults.push((f.at, FaultAct::Cut { from: (*from).min(1), sink_err: *sink_err, src: src_mode(*src), drop_inflight: *drop_inflight }, false)),
            FaultKind::CutBoth { src, drop_inflight } => {
                for from in 0..2 {
                    w.faults.push((f.at, FaultAct::Cut { from, sink_err: true, src: src_mode(*src), drop_inflight: *drop_inflight }, false));
                }
            }
            FaultKind::Garbage { to, kind } => w.faults.push((f.at, FaultAct::InjectGarbage { from: 1 - to.min(&1), bytes: garbage_bytes(*kind) }, false)),
            FaultKind::Hold { from, steps } => {
                w.faults.push((f.at, FaultAct::Hold { from: (*from).min(1), on: true }, false));
                w.faults.push((f.at + steps, FaultAct::Hold { from: (*from).min(1), on: false }, false));
            }
            FaultKind::AbortTask { ep } => {
                let ep = (*ep).min(1);
                let tc = task_cancels[ep].clone();
                w.customs.push((f.at, Box::new(move || {
                    tc.cancel();
                    format!("abort-task:{ep}")
                }), false));
            }
            FaultKind::DropMux { ep } => {
                let ep = (*ep).min(1);
                let (muxes2, cancel, led2, seq2) = (muxes.clone(), cancels[ep].clone(), led.clone(), seq.clone());
                w.customs.push((f.at, Box::new(move || {
                    // the application stops using the multiplexor: pending calls are cancelled
                    // (their futures dropped), then the handle itself is dropped
                    cancel.cancel();
                    let now = seq2.tick();
                    led2.borrow_mut().mux_dropped[ep] = Some(now);
                    muxes2.borrow_mut()[ep] = None;
                    format!("drop-mux:{ep}")
                }), false));
            }
        }
    }
    // the harness' own handles go away now; actors hold theirs
    let keep = muxes.clone();
    let horizon = if plan.horizon_ms > 0 { Duration::from_millis(plan.horizon_ms) } else { HORIZON };
    let end = sim.run(3_000_000, horizon).await;
    let mut probe_from = link.lock().unwrap().evs.len();
    // ---- leak probe: Acknowledge(id, 0) for every id ever seen, towards both endpoints
    if plan.probe_leaks && end == End::Quiescent {
        let ids: Vec<u32> = {
            let l = link.lock().unwrap();
            let mut v: Vec<u32> = l.evs.iter().filter_map(|e| match &*e.w { Wire::Frame(crate::refcodec::RFrame::Connect { id, .. }) | Wire::Frame(crate::refcodec::RFrame::Bind { id, .. }) => Some(*id), _ => None }).collect();
            v.sort_unstable();
            v.dedup();
            v
        };
        probe_from = link.lock().unwrap().evs.len();
        for id in &ids {
            for from in 0..2 {
                let mut l = link.lock().unwrap();
                if !l.d[from].sink_closed && !l.d[from].sink_err && l.d[from].src == SrcMode::Normal {
                    l.inject(from, penguin_mux::ws::Message::Binary(crate::refcodec::RFrame::Ack { id: *id, n: 0 }.encode().into()));
                }
            }
        }
        sim.run(3_000_000, HORIZON).await;
    }
    drop(keep);
    let fired = world.borrow().fired_at.clone();
    let t0 = link.lock().unwrap().t0;
    DuoRun { plan, led, link, end, steps: sim.steps, digest: sim.digest.0 ^ seq.now(), decisions: sim.decisions.take().unwrap_or_default(), unfinished: sim.unfinished(), fired, sim_ms: sim.t_last.duration_since(t0).as_millis() as u64, probe_from, trace: sim.trace.take(), budget_exhausted: sim.budget_exhausted, spurious_polls: sim.spurious_polls }
}

pub fn outcome_base(r: &DuoRun) -> Outcome {
    let mut o = Outcome { digest: r.digest, steps: r.steps, sim_ms: r.sim_ms, decisions: r.decisions.clone(), ..Default::default() };
    for (name, _) in &r.fired {
        let kind = name.split(':').next().unwrap_or("");
        o.probe(&format!("fault:{kind}"), 1);
    }
    for (k, v) in &r.led.borrow().probes {
        o.probe(k, *v);
    }
    if r.spurious_polls > 0 {
        o.probe("fault:spurious-poll", r.spurious_polls);
    }
    if r.plan.coop {
        o.probe("fault:coop-constrained-run", 1);
        if r.budget_exhausted > 0 {
            o.probe("fault:coop-budget-exhausted", 1);
        }
    }
    if r.end != End::Quiescent {
        o.violate("HARNESS:step-budget", format!("run did not reach quiescence within the step budget ({} steps)", r.steps));
    }
    o
}

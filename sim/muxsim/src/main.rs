mod duo;
mod exec;
mod plangen;
mod link;
mod oracle;
mod props;
mod refcodec;
mod scriptio;
mod socks;
mod solo;

fn main() {
    let args: Vec<String> = std::env::args().collect();
    let code = simcore::cli(&args, &|id| props::lookup(id));
    std::process::exit(code);
}

//! Seeded executor nested in a paused tokio `current_thread` runtime.
//!
//! One *step* = the scheduler picks one enabled action among {poll runnable task i, world action j
//! (deliver a message, ...)}. A poll of a task is atomic — exactly the granularity at which
//! single-threaded tokio interleaves. When nothing is enabled the outer future first yields to
//! tokio once (delivers deferred wakes such as `yield_now`'s), then parks; tokio auto-advances the
//! paused clock to the next timer; a sentinel timer at the horizon ends the run. Quiescence
//! (nothing enabled and no timer before the horizon) therefore means: no further progress is
//! possible in any continuation.

use simcore::prng::Digest;
use simcore::{Prng, Sched};
use std::cell::{Cell, RefCell};
use std::collections::BTreeSet;
use std::future::Future;
use std::pin::Pin;
use std::rc::Rc;
use std::sync::{Arc, Mutex};
use std::task::{Context, Poll, Wake, Waker};
use std::time::Duration;

/// Global event sequence number shared by the executor, the link monitor and the API ledger.
#[derive(Clone, Default)]
pub struct Seq(Rc<Cell<u64>>);
impl Seq {
    pub fn tick(&self) -> u64 {
        let v = self.0.get() + 1;
        self.0.set(v);
        v
    }
    pub fn now(&self) -> u64 {
        self.0.get()
    }
}

struct Shared {
    ready: BTreeSet<usize>,
    outer: Option<Waker>,
}
struct TW {
    id: usize,
    sh: Arc<Mutex<Shared>>,
}
impl Wake for TW {
    fn wake(self: Arc<Self>) {
        self.wake_by_ref();
    }
    fn wake_by_ref(self: &Arc<Self>) {
        let mut s = self.sh.lock().unwrap();
        s.ready.insert(self.id);
        if let Some(w) = s.outer.take() {
            w.wake();
        }
    }
}

pub type LocalFut = Pin<Box<dyn Future<Output = ()>>>;

/// weight classes for the schedule policy
pub const CLS_CONN0: usize = 0;
pub const CLS_CONN1: usize = 1;
pub const CLS_WRITER: usize = 2;
pub const CLS_READER: usize = 3;
pub const CLS_OTHER: usize = 4;
pub const CLS_LINK: usize = 5;
pub const NCLS: usize = 6;

struct Slot {
    name: String,
    cls: usize,
    fut: Option<LocalFut>,
    waker: Waker,
}

pub trait World {
    /// called at the top of every scheduling round: apply faults whose trigger is due
    fn tick(&mut self, step: u64);
    /// number of enabled world actions right now
    fn enabled(&mut self) -> usize;
    /// execute world action i; returns a code folded into the digest
    fn fire(&mut self, i: usize) -> u64;
    /// earliest virtual instant at which a currently disabled action becomes enabled
    fn next_deadline(&mut self) -> Option<tokio::time::Instant>;
}

#[derive(Debug, PartialEq, Clone, Copy)]
pub enum End {
    Quiescent,
    StepBudget,
}

enum Chooser {
    Seeded(Prng, [u32; NCLS]),
    Recorded(Vec<u32>, usize),
}

#[derive(Clone)]
pub struct Spawner(Rc<RefCell<Vec<(String, usize, LocalFut)>>>);
impl Spawner {
    pub fn spawn(&self, name: &str, cls: usize, f: impl Future<Output = ()> + 'static) {
        self.0.borrow_mut().push((name.to_string(), cls, Box::pin(tokio::task::unconstrained(f))));
    }
}

pub struct Sim<W: World> {
    slots: Vec<Slot>,
    sh: Arc<Mutex<Shared>>,
    chooser: Chooser,
    pub world: Rc<RefCell<W>>,
    pub seq: Seq,
    pub steps: u64,
    /// virtual instant of the last executed step
    pub t_last: tokio::time::Instant,
    pub digest: Digest,
    pub decisions: Option<Vec<u32>>,
    /// (event sequence number, virtual instant) of every poll of endpoint 0's connection task
    pub conn0_polls: Vec<(u64, tokio::time::Instant)>,
    pub trace: Option<Vec<String>>,
    /// polls after which tokio's cooperative budget of the current turn was used up (only
    /// constrained tasks consume it)
    pub budget_exhausted: u64,
    /// fault kind "spurious poll": now and then a task of the code under test (a connection task,
    /// the bridge) is polled although nothing has woken it - legal for any future, and what
    /// `select!` / `join!` / a manual poll in an enclosing future do all the time
    pub spurious: bool,
    pub spurious_polls: u64,
    spawn_q: Rc<RefCell<Vec<(String, usize, LocalFut)>>>,
}

impl<W: World> Sim<W> {
    pub fn new(sched: &Sched, weights: [u32; NCLS], record: bool, world: Rc<RefCell<W>>, seq: Seq) -> Self {
        let chooser = match sched {
            Sched::Seeded(s) => Chooser::Seeded(Prng::new(*s ^ 0x5ced_5ced), weights),
            Sched::Recorded(v) => Chooser::Recorded(v.clone(), 0),
        };
        Sim {
            slots: vec![],
            sh: Arc::new(Mutex::new(Shared { ready: BTreeSet::new(), outer: None })),
            chooser,
            world,
            seq,
            steps: 0,
            t_last: tokio::time::Instant::now(),
            digest: Digest::default(),
            decisions: if record { Some(vec![]) } else { None },
            conn0_polls: vec![],
            trace: if std::env::var_os("SIM_TRACE").is_some() { Some(vec![]) } else { None },
            budget_exhausted: 0,
            spurious: false,
            spurious_polls: 0,
            spawn_q: Rc::new(RefCell::new(vec![])),
        }
    }
    pub fn spawner(&self) -> Spawner {
        Spawner(self.spawn_q.clone())
    }
    pub fn spawn(&mut self, name: &str, cls: usize, f: impl Future<Output = ()> + 'static) {
        self.add(name.to_string(), cls, Box::pin(tokio::task::unconstrained(f)));
    }
    /// Like `spawn`, but the task stays subject to tokio's cooperative budget (128 operations on
    /// tokio resources per poll of the *outer* future, shared by all such tasks): once it is used
    /// up, channel and timer operations return a spurious `Pending` and are woken when the outer
    /// future next returns to the runtime - what a busy production runtime does to a task. The
    /// executor already returns to tokio before it declares quiescence, so the deferred wake-ups
    /// are delivered.
    pub fn spawn_constrained(&mut self, name: &str, cls: usize, f: impl Future<Output = ()> + 'static) {
        self.add(name.to_string(), cls, Box::pin(f));
    }
    fn add(&mut self, name: String, cls: usize, fut: LocalFut) {
        let id = self.slots.len();
        let waker = Waker::from(Arc::new(TW { id, sh: self.sh.clone() }));
        self.slots.push(Slot { name, cls, fut: Some(fut), waker });
        self.sh.lock().unwrap().ready.insert(id);
    }
    pub fn unfinished(&self) -> Vec<String> {
        self.slots.iter().filter(|s| s.fut.is_some()).map(|s| s.name.clone()).collect()
    }
    pub fn is_finished(&self, name: &str) -> bool {
        self.slots.iter().any(|s| s.name == name && s.fut.is_none())
    }

    fn choose(&mut self, ready: &[usize], extra: usize, spurious_option: bool) -> usize {
        let n = ready.len() + extra + spurious_option as usize;
        let c = match &mut self.chooser {
            Chooser::Seeded(rng, w) => {
                // weighted by class; a zero weight still leaves an option schedulable (weight 1)
                let wt = |k: usize| -> u64 {
                    // (the last option may be "a spurious poll": it gets half the weight of a link action)
                    let scale = if spurious_option { 2 } else { 1 };
                    if k < ready.len() { (w[self.slots[ready[k]].cls] as u64).max(1) * scale } else if spurious_option && k + 1 == n { (w[CLS_LINK] as u64).max(1) } else { (w[CLS_LINK] as u64).max(1) * scale }
                };
                let tot: u64 = (0..n).map(wt).sum();
                let mut r = rng.next() % tot;
                let mut pick = n - 1;
                for k in 0..n {
                    let x = wt(k);
                    if r < x {
                        pick = k;
                        break;
                    }
                    r -= x;
                }
                pick
            }
            Chooser::Recorded(v, pos) => {
                let d = v.get(*pos).copied().unwrap_or(0) as usize;
                *pos += 1;
                d % n
            }
        };
        if let Some(d) = &mut self.decisions {
            d.push(c as u32);
        }
        c
    }

    /// Run until quiescence (nothing enabled and no timer before `horizon`) or the step budget.
    pub async fn run(&mut self, max_steps: u64, horizon: Duration) -> End {
        let sentinel = tokio::time::sleep(horizon);
        tokio::pin!(sentinel);
        let mut yielded = false;
        let mut dl_sleep: Option<Pin<Box<tokio::time::Sleep>>> = None;
        std::future::poll_fn(|cx| {
            loop {
                let q: Vec<_> = self.spawn_q.borrow_mut().drain(..).collect();
                for (n, c, f) in q {
                    self.add(n, c, f);
                }
                if self.steps >= max_steps {
                    return Poll::Ready(End::StepBudget);
                }
                self.world.borrow_mut().tick(self.steps);
                let ready: Vec<usize> = {
                    let mut s = self.sh.lock().unwrap();
                    s.outer = Some(cx.waker().clone());
                    s.ready.iter().copied().collect()
                };
                let extra = self.world.borrow_mut().enabled();
                let n = ready.len() + extra;
                // tasks of the code under test that are asleep: candidates for a spurious poll,
                // offered as one more option while anything else is enabled (never on its own:
                // it must not keep a quiescent system busy)
                let sleepers: Vec<usize> = if self.spurious && n > 0 {
                    (0..self.slots.len()).filter(|i| self.slots[*i].fut.is_some() && !ready.contains(i) && (self.slots[*i].cls == CLS_CONN0 || self.slots[*i].cls == CLS_CONN1 || self.slots[*i].name.starts_with("bridge"))).collect()
                } else {
                    vec![]
                };
                if n == 0 {
                    if !yielded {
                        yielded = true;
                        cx.waker().wake_by_ref();
                        return Poll::Pending;
                    }
                    if sentinel.as_mut().poll(cx).is_ready() {
                        return Poll::Ready(End::Quiescent);
                    }
                    // a world action with a virtual deadline (link latency): sleep until then
                    if let Some(dl) = self.world.borrow_mut().next_deadline() {
                        let mut s = Box::pin(tokio::time::sleep_until(dl));
                        if s.as_mut().poll(cx).is_ready() {
                            continue;
                        }
                        dl_sleep = Some(s);
                    } else {
                        dl_sleep = None;
                    }
                    return Poll::Pending; // tokio auto-advances to the next timer
                }
                yielded = false;
                let _ = &dl_sleep;
                self.steps += 1;
                self.t_last = tokio::time::Instant::now();
                let mut c = self.choose(&ready, extra, !sleepers.is_empty());
                let mut spurious_id = None;
                if c == n && !sleepers.is_empty() {
                    // which sleeper: a second decision (recorded like the first)
                    let k = self.choose(&sleepers, 0, false);
                    spurious_id = Some(sleepers[k]);
                    self.spurious_polls += 1;
                    c = 0;
                }
                if c < ready.len() || spurious_id.is_some() {
                    let id = spurious_id.unwrap_or_else(|| ready[c]);
                    self.sh.lock().unwrap().ready.remove(&id);
                    if let Some(mut fut) = self.slots[id].fut.take() {
                        let w = self.slots[id].waker.clone();
                        let mut tcx = Context::from_waker(&w);
                        let sq = self.seq.tick();
                        if self.slots[id].cls == CLS_CONN0 {
                            self.conn0_polls.push((sq, tokio::time::Instant::now()));
                        }
                        let done = fut.as_mut().poll(&mut tcx).is_ready();
                        if !tokio::task::coop::has_budget_remaining() {
                            self.budget_exhausted += 1;
                        }
                        self.digest.u64(((id as u64) << 1) | done as u64);
                        if let Some(t) = &mut self.trace {
                            t.push(format!("{:>6} poll {}{}", self.steps, self.slots[id].name, if done { " (done)" } else { "" }));
                        }
                        if !done {
                            self.slots[id].fut = Some(fut);
                        }
                    }
                } else {
                    self.seq.tick();
                    let code = self.world.borrow_mut().fire(c - ready.len());
                    self.digest.u64(0x8000_0000_0000_0000 | code);
                    if let Some(t) = &mut self.trace {
                        t.push(format!("{:>6} world {:x}", self.steps, code));
                    }
                }
            }
        })
        .await
    }
}

/// A cooperative scheduling point for scripted actors: returns `Pending` once and wakes itself,
/// so the scheduler may run anything else before the actor continues.
pub async fn sim_yield() {
    let mut done = false;
    std::future::poll_fn(|cx| {
        if done {
            Poll::Ready(())
        } else {
            done = true;
            cx.waker().wake_by_ref();
            Poll::Pending
        }
    })
    .await
}
pub async fn sim_yields(n: usize) {
    for _ in 0..n {
        sim_yield().await;
    }
}

/// Build the per-run runtime: current_thread, paused clock.
pub fn block_on<F: Future>(f: F) -> F::Output {
    let rt = tokio::runtime::Builder::new_current_thread().enable_time().start_paused(true).build().expect("runtime");
    rt.block_on(f)
}

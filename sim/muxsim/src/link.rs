//! In-memory WebSocket link with tokio-tungstenite's observable contract, owned by the simulator,
//! plus the wire monitor: every message is recorded at *send*, at *delivery* and at *consumption*
//! (the instant `poll_next_unpin` hands it to the connection task), stamped with the global event
//! sequence number and decoded with the independent reference codec.

use crate::exec::{Seq, World};
use crate::refcodec::RFrame;
use penguin_mux::ws::{Message, WebSocket};
use std::collections::VecDeque;
use std::sync::{Arc, Mutex};
use std::task::{Context, Poll, Waker};
use std::time::Duration;
use tokio::time::Instant;

#[derive(Clone, Copy, Debug, PartialEq)]
pub enum SrcMode {
    Normal,
    /// next read yields an error, afterwards end-of-stream
    Err,
    /// reads yield end-of-stream
    Eof,
    /// reads pend forever (a truly dead peer: nothing comes back, not even Close)
    Silent,
}

#[derive(Clone, Debug, PartialEq)]
pub enum Wire {
    Frame(RFrame),
    Garbage(Vec<u8>),
    Ping,
    Pong,
    Close,
}
pub fn to_wire(m: &Message) -> Wire {
    match m {
        Message::Binary(b) => RFrame::decode(b).map(Wire::Frame).unwrap_or_else(|| Wire::Garbage(b.to_vec())),
        Message::Ping => Wire::Ping,
        Message::Pong => Wire::Pong,
        Message::Close => Wire::Close,
    }
}
impl Wire {
    pub fn code(&self) -> u64 {
        match self {
            Wire::Frame(f) => {
                let (op, extra) = match f {
                    RFrame::Connect { rwnd, .. } => (0u64, *rwnd as u64),
                    RFrame::Ack { n, .. } => (1, *n as u64),
                    RFrame::Reset { .. } => (2, 0),
                    RFrame::Finish { .. } => (3, 0),
                    RFrame::Push { data, .. } => (4, data.len() as u64),
                    RFrame::Bind { .. } => (5, 0),
                    RFrame::Datagram { data, .. } => (6, data.len() as u64),
                };
                (op << 56) ^ ((f.id() as u64) << 20) ^ (extra & 0xfffff)
            }
            Wire::Garbage(g) => (7 << 56) | g.len() as u64,
            Wire::Ping => 8 << 56,
            Wire::Pong => 9 << 56,
            Wire::Close => 10 << 56,
        }
    }
    pub fn short(&self) -> String {
        match self {
            Wire::Frame(RFrame::Push { id, data }) => format!("Push({id:x},{}B)", data.len()),
            Wire::Frame(RFrame::Datagram { id, data, host, port }) => format!("Dgram({id:x},h{}B,p{port},{}B)", host.len(), data.len()),
            Wire::Frame(RFrame::Connect { id, rwnd, port, host }) => format!("Connect({id:x},rwnd{rwnd},{}:{port})", String::from_utf8_lossy(host)),
            Wire::Frame(RFrame::Ack { id, n }) => format!("Ack({id:x},{n})"),
            Wire::Frame(RFrame::Reset { id }) => format!("Reset({id:x})"),
            Wire::Frame(RFrame::Finish { id }) => format!("Finish({id:x})"),
            Wire::Frame(RFrame::Bind { id, ty, port, host }) => format!("Bind({id:x},t{ty},{}:{port})", String::from_utf8_lossy(host)),
            Wire::Garbage(g) => format!("Garbage({}B)", g.len()),
            o => format!("{o:?}"),
        }
    }
}

#[derive(Clone, Copy, Debug, PartialEq)]
pub enum Stage {
    Sent,
    Delivered,
    Consumed,
    /// a message that was in flight when the direction was cut and was thrown away
    Lost,
}
#[derive(Clone, Debug)]
pub struct Ev {
    pub seq: u64,
    pub stage: Stage,
    /// the endpoint that sent the message (the consumer is `1 - from`)
    pub from: usize,
    pub w: Arc<Wire>,
    /// virtual time since the start of the run
    pub t: Duration,
    /// true for messages the harness injected on behalf of `from` (probes, garbage, forged Close)
    pub injected: bool,
}

struct Msg {
    m: Message,
    w: Arc<Wire>,
    ready_at: Instant,
    injected: bool,
}

pub struct Dir {
    inflight: VecDeque<Msg>,
    delivered: VecDeque<Msg>,
    /// the sender queued a Close into this direction
    pub sink_closed: bool,
    /// the sender has read the peer's Close: its own data sends fail from then on
    pub close_owed: bool,
    /// the receiver has consumed the Close of this direction
    pub close_consumed: bool,
    rx_waker: Option<Waker>,
    tx_waker: Option<Waker>,
    pub capacity: usize,
    pub sink_err: bool,
    pub src: SrcMode,
    pub hold: bool,
    /// per-message virtual latency in ms, drawn by the world's PRNG in [0, max]
    pub latency_max_ms: u64,
    last_ready: Option<Instant>,
    /// the receiving endpoint's socket object is gone (its connection task returned): like a closed
    /// TCP socket, further sends into this direction fail
    pub receiver_gone: bool,
    /// the sending endpoint's socket object is gone: after the buffered messages the receiver's
    /// source reports end-of-stream
    pub sender_gone: bool,
}
impl Dir {
    pub fn inflight_len(&self) -> usize {
        self.inflight.len()
    }
    pub fn delivered_len(&self) -> usize {
        self.delivered.len()
    }
}

pub struct Link {
    pub d: [Dir; 2],
    pub seq: Seq,
    pub evs: Vec<Ev>,
    pub auto_pong: [bool; 2],
    /// control reply (Pong / Close) that endpoint x owes since its last read; like tungstenite it is
    /// put on the wire at the start of x's *next* socket operation (read, ready, send, flush, close),
    /// and a newer reply replaces one that has not left yet
    pub pending_reply: [Option<Message>; 2],
    /// WebSocket client role: after the closing handshake a client waits for the server to close the
    /// transport, i.e. its source ends only when the peer's socket object is gone
    pub waits_for_transport_close: [bool; 2],
    /// how back-pressure shows: false = `poll_ready` pends while the window is full (a bounded sink);
    /// true = `poll_ready` is always ready and `poll_flush` pends instead (tokio-tungstenite's way)
    pub backpressure_in_flush: bool,
    /// tungstenite ignores data frames that arrive after the local side has sent Close
    pub drop_data_after_close_sent: bool,
    pub t0: Instant,
    lat_rng: simcore::Prng,
    /// counters
    pub n_delivered: u64,
    pub backpressure_hits: u64,
    /// the sink of endpoint x returned an error to the connection task at least once
    pub sink_err_seen: [bool; 2],
    /// the source of endpoint x reported an error or end-of-stream to the connection task
    pub src_ended_seen: [bool; 2],
}
// `Seq` is an Rc: the link is only ever touched from the simulator thread; the Mutex is there
// because `WebSocket` demands `Send`.
unsafe impl Send for Link {}
pub type L = Arc<Mutex<Link>>;

impl Link {
    pub fn new(cap: usize, latency_max_ms: u64, seq: Seq, lat_seed: u64) -> L {
        let mk = || Dir { inflight: VecDeque::new(), delivered: VecDeque::new(), sink_closed: false, close_owed: false, close_consumed: false, rx_waker: None, tx_waker: None, capacity: cap, sink_err: false, src: SrcMode::Normal, hold: false, latency_max_ms, last_ready: None, receiver_gone: false, sender_gone: false };
        Arc::new(Mutex::new(Link { d: [mk(), mk()], seq, evs: vec![], auto_pong: [true, true], pending_reply: [None, None], waits_for_transport_close: [false, false], backpressure_in_flush: false, drop_data_after_close_sent: false, t0: Instant::now(), lat_rng: simcore::Prng::new(lat_seed), n_delivered: 0, backpressure_hits: 0, sink_err_seen: [false; 2], src_ended_seen: [false; 2] }))
    }
    fn ev(&mut self, stage: Stage, from: usize, w: &Arc<Wire>, injected: bool) {
        let seq = self.seq.tick();
        let t = self.t0.elapsed();
        self.evs.push(Ev { seq, stage, from, w: w.clone(), t, injected });
    }
    fn enqueue(&mut self, from: usize, m: Message, injected: bool) {
        let w = Arc::new(to_wire(&m));
        self.ev(Stage::Sent, from, &w, injected);
        let lat = self.d[from].latency_max_ms;
        let mut ready_at = Instant::now();
        if lat > 0 {
            ready_at += Duration::from_millis(self.lat_rng.next() % (lat + 1));
            // FIFO per direction: never earlier than the previous message
            if let Some(p) = self.d[from].last_ready {
                if ready_at < p {
                    ready_at = p;
                }
            }
            self.d[from].last_ready = Some(ready_at);
        }
        self.d[from].inflight.push_back(Msg { m, w, ready_at, injected });
    }
    /// The harness puts a message on the wire as if endpoint `from` had sent it.
    pub fn inject(&mut self, from: usize, m: Message) {
        if matches!(m, Message::Close) {
            self.d[from].sink_closed = true;
        }
        self.enqueue(from, m, true);
        if let Some(w) = self.d[from].rx_waker.take() {
            w.wake();
        }
    }
    /// Cut direction `from -> 1-from`: the sender's sink starts failing and/or the receiver's
    /// source changes mode; in-flight messages are thrown away or still delivered first.
    pub fn cut(&mut self, from: usize, sink_err: bool, src: SrcMode, drop_inflight: bool) {
        self.d[from].sink_err |= sink_err;
        self.d[from].src = src;
        if drop_inflight {
            let lost: Vec<Msg> = self.d[from].inflight.drain(..).chain(std::mem::take(&mut self.d[from].delivered)).collect();
            for m in lost {
                self.ev(Stage::Lost, from, &m.w, m.injected);
            }
        }
        let d = &mut self.d[from];
        if let Some(w) = d.rx_waker.take() {
            w.wake();
        }
        if let Some(w) = d.tx_waker.take() {
            w.wake();
        }
    }
    pub fn set_hold(&mut self, from: usize, hold: bool) {
        self.d[from].hold = hold;
    }
    pub fn wake_all(&mut self) {
        for d in &mut self.d {
            if let Some(w) = d.rx_waker.take() {
                w.wake();
            }
            if let Some(w) = d.tx_waker.take() {
                w.wake();
            }
        }
    }
    /// put the owed control reply of endpoint `me` on the wire if its sink allows it
    fn flush_reply(&mut self, me: usize) {
        if self.pending_reply[me].is_none() {
            return;
        }
        let d = &self.d[me];
        if d.sink_err || d.receiver_gone {
            self.pending_reply[me] = None;
            return;
        }
        // tungstenite puts an owed Pong / Close into its (by default unbounded) write buffer with
        // the very next operation, behind whatever that operation buffered: it may wait there for
        // the socket, but it can never be overtaken for ever by later data. The reply therefore
        // does not count against the capacity that models back-pressure on data.
        let m = self.pending_reply[me].take().unwrap();
        if matches!(m, Message::Close) {
            self.d[me].sink_closed = true;
        } else if self.d[me].sink_closed {
            return;
        }
        self.enqueue(me, m, false);
    }
    fn deliverable(&self, i: usize) -> bool {
        let d = &self.d[i];
        !d.hold && d.inflight.front().is_some_and(|m| m.ready_at <= Instant::now())
    }
}

pub struct SimWs {
    pub link: L,
    pub me: usize,
}
impl Drop for SimWs {
    /// The socket object goes away with the connection task (or the raw peer): the other side
    /// sees what a closed TCP connection shows — end-of-stream after the buffered data, errors on send.
    fn drop(&mut self) {
        let mut l = self.link.lock().unwrap();
        let me = self.me;
        l.d[me].sender_gone = true;
        l.d[1 - me].receiver_gone = true;
        l.wake_all();
    }
}
fn werr() -> penguin_mux::Error {
    penguin_mux::Error::WebSocket(Box::new(std::io::Error::from(std::io::ErrorKind::ConnectionReset)))
}
impl SimWs {
    fn poll_space(&mut self, cx: &mut Context<'_>) -> Poll<Result<(), penguin_mux::Error>> {
        let mut l = self.link.lock().unwrap();
        let me = self.me;
        if l.d[me].sink_err || l.d[me].receiver_gone {
            l.sink_err_seen[me] = true;
            return Poll::Ready(Err(werr()));
        }
        if !l.backpressure_in_flush && l.d[me].inflight.len() + l.d[me].delivered.len() >= l.d[me].capacity {
            l.d[me].tx_waker = Some(cx.waker().clone());
            l.backpressure_hits += 1;
            return Poll::Pending;
        }
        Poll::Ready(Ok(()))
    }
}
impl WebSocket for SimWs {
    fn poll_ready_unpin(&mut self, cx: &mut Context<'_>) -> Poll<Result<(), penguin_mux::Error>> {
        self.poll_space(cx)
    }
    fn start_send_unpin(&mut self, item: Message) -> Result<(), penguin_mux::Error> {
        let mut l = self.link.lock().unwrap();
        let me = self.me;
        if l.d[me].sink_err || l.d[me].receiver_gone {
            l.sink_err_seen[me] = true;
            return Err(werr());
        }
        if l.d[me].sink_closed || l.d[me].close_owed {
            return Err(penguin_mux::Error::Closed);
        }
        if matches!(item, Message::Close) {
            l.d[me].sink_closed = true;
        }
        l.enqueue(me, item, false);
        // tungstenite buffers the message first and the owed control reply after it
        l.flush_reply(me);
        Ok(())
    }
    fn poll_flush_unpin(&mut self, cx: &mut Context<'_>) -> Poll<Result<(), penguin_mux::Error>> {
        let mut l = self.link.lock().unwrap();
        let me = self.me;
        l.flush_reply(me);
        if l.d[me].sink_err || l.d[me].receiver_gone {
            l.sink_err_seen[me] = true;
            return Poll::Ready(Err(werr()));
        }
        if l.backpressure_in_flush && l.d[me].inflight.len() + l.d[me].delivered.len() > l.d[me].capacity {
            l.d[me].tx_waker = Some(cx.waker().clone());
            l.backpressure_hits += 1;
            return Poll::Pending;
        }
        Poll::Ready(Ok(()))
    }
    fn poll_close_unpin(&mut self, cx: &mut Context<'_>) -> Poll<Result<(), penguin_mux::Error>> {
        let mut l = self.link.lock().unwrap();
        let me = self.me;
        l.flush_reply(me);
        if l.d[me].sink_closed {
            return Poll::Ready(Ok(()));
        }
        if l.d[me].sink_err || l.d[me].receiver_gone {
            l.sink_err_seen[me] = true;
            return Poll::Ready(Err(werr()));
        }
        // the Close (our own, or the reply we owe) needs room like any other message
        if l.d[me].inflight.len() + l.d[me].delivered.len() >= l.d[me].capacity {
            l.d[me].tx_waker = Some(cx.waker().clone());
            l.backpressure_hits += 1;
            return Poll::Pending;
        }
        l.pending_reply[me] = None;
        l.d[me].sink_closed = true;
        l.enqueue(me, Message::Close, false);
        Poll::Ready(Ok(()))
    }
    fn poll_next_unpin(&mut self, cx: &mut Context<'_>) -> Poll<Option<Result<Message, penguin_mux::Error>>> {
        let mut l = self.link.lock().unwrap();
        let me = self.me;
        let from = 1 - me;
        l.flush_reply(me);
        loop {
            match l.d[from].src {
                SrcMode::Err => {
                    l.d[from].src = SrcMode::Eof;
                    l.src_ended_seen[me] = true;
                    return Poll::Ready(Some(Err(werr())));
                }
                SrcMode::Eof => {
                    l.src_ended_seen[me] = true;
                    return Poll::Ready(None);
                }
                SrcMode::Silent => {
                    // tungstenite in the server role reports the end as soon as both Close frames
                    // have been exchanged, without looking at the transport again
                    if l.d[from].close_consumed && l.d[me].sink_closed && l.pending_reply[me].is_none() && !l.waits_for_transport_close[me] {
                        return Poll::Ready(None);
                    }
                    l.d[from].rx_waker = Some(cx.waker().clone());
                    return Poll::Pending;
                }
                SrcMode::Normal => {}
            }
            if l.d[from].close_consumed && l.d[me].sink_closed && l.pending_reply[me].is_none() {
                if l.waits_for_transport_close[me] && !l.d[from].sender_gone {
                    l.d[from].rx_waker = Some(cx.waker().clone());
                    return Poll::Pending;
                }
                return Poll::Ready(None);
            }
            if let Some(msg) = l.d[from].delivered.pop_front() {
                let ignored = l.drop_data_after_close_sent && l.d[me].sink_closed && matches!(msg.m, Message::Binary(_));
                if ignored {
                    l.ev(Stage::Lost, from, &msg.w, msg.injected);
                } else {
                    l.ev(Stage::Consumed, from, &msg.w, msg.injected);
                }
                if let Some(w) = l.d[from].tx_waker.take() {
                    w.wake();
                }
                if ignored {
                    continue;
                }
                match msg.m {
                    Message::Ping => {
                        if l.auto_pong[me] && !l.d[me].sink_closed && !l.d[me].sink_err && !matches!(l.pending_reply[me], Some(Message::Close)) {
                            l.pending_reply[me] = Some(Message::Pong);
                        }
                    }
                    Message::Close => {
                        l.d[from].close_consumed = true;
                        if !l.d[me].sink_closed && !l.d[me].sink_err {
                            // from now on our own sends fail; the Close reply leaves with the next operation
                            l.pending_reply[me] = Some(Message::Close);
                            l.d[me].close_owed = true;
                        }
                    }
                    _ => {}
                }
                return Poll::Ready(Some(Ok(msg.m)));
            }
            if l.d[from].close_consumed && !(l.waits_for_transport_close[me] && !l.d[from].sender_gone) && l.pending_reply[me].is_none() {
                return Poll::Ready(None);
            }
            if l.d[from].sender_gone && l.d[from].inflight.is_empty() {
                l.src_ended_seen[me] = true;
                return Poll::Ready(None);
            }
            l.d[from].rx_waker = Some(cx.waker().clone());
            return Poll::Pending;
        }
    }
}

/// Raw-peer helpers: the harness itself acts as endpoint `me`, encoding with the reference codec.
pub struct Raw {
    pub ws: SimWs,
}
impl Raw {
    pub fn new(link: &L, me: usize) -> Self {
        Raw { ws: SimWs { link: link.clone(), me } }
    }
    pub fn send(&mut self, f: RFrame) -> bool {
        self.ws.start_send_unpin(Message::Binary(f.encode().into())).is_ok()
    }
    pub fn send_bytes(&mut self, b: Vec<u8>) -> bool {
        self.ws.start_send_unpin(Message::Binary(b.into())).is_ok()
    }
    pub fn send_msg(&mut self, m: Message) -> bool {
        self.ws.start_send_unpin(m).is_ok()
    }
    pub fn poll_recv(&mut self, cx: &mut Context<'_>) -> Poll<Option<Wire>> {
        self.ws.poll_next_unpin(cx).map(|o| o.and_then(|r| r.ok()).map(|m| to_wire(&m)))
    }
}

/// A fault applied at a scheduling round chosen by the plan (step index of the run itself).
#[derive(Clone, Debug)]
pub enum FaultAct {
    Cut { from: usize, sink_err: bool, src: SrcMode, drop_inflight: bool },
    InjectClose { from: usize },
    InjectGarbage { from: usize, bytes: Vec<u8> },
    Hold { from: usize, on: bool },
}
pub struct LinkWorld {
    pub link: L,
    /// (trigger step, action, fired?)
    pub faults: Vec<(u64, FaultAct, bool)>,
    /// harness-level faults (e.g. dropping the multiplexor handle): (trigger step, action, fired?)
    pub customs: Vec<(u64, Box<dyn FnMut() -> String>, bool)>,
    pub fired_at: Vec<(String, u64)>,
}
impl LinkWorld {
    pub fn new(link: L) -> Self {
        LinkWorld { link, faults: vec![], customs: vec![], fired_at: vec![] }
    }
}
impl World for LinkWorld {
    fn tick(&mut self, step: u64) {
        for (at, f, fired) in &mut self.customs {
            if !*fired && step >= *at {
                *fired = true;
                let name = f();
                let seq = self.link.lock().unwrap().seq.now();
                self.fired_at.push((name, seq));
            }
        }
        for (at, act, fired) in &mut self.faults {
            if !*fired && step >= *at {
                *fired = true;
                let mut l = self.link.lock().unwrap();
                let seq = l.seq.tick();
                let name = match act {
                    FaultAct::Cut { from, sink_err, src, drop_inflight } => {
                        l.cut(*from, *sink_err, *src, *drop_inflight);
                        format!("cut:{from}:{}:{src:?}:{}", if *sink_err { "sinkerr" } else { "sinkok" }, if *drop_inflight { "drop" } else { "keep" })
                    }
                    FaultAct::InjectClose { from } => {
                        l.inject(*from, Message::Close);
                        format!("peer-close:{from}")
                    }
                    FaultAct::InjectGarbage { from, bytes } => {
                        l.inject(*from, Message::Binary(bytes.clone().into()));
                        format!("garbage:{from}")
                    }
                    FaultAct::Hold { from, on } => {
                        l.set_hold(*from, *on);
                        if !*on {
                            l.wake_all();
                        }
                        format!("hold:{from}:{on}")
                    }
                };
                self.fired_at.push((name, seq));
            }
        }
    }
    fn enabled(&mut self) -> usize {
        let l = self.link.lock().unwrap();
        (0..2).filter(|&i| l.deliverable(i)).count()
    }
    fn fire(&mut self, i: usize) -> u64 {
        let mut l = self.link.lock().unwrap();
        let dirs: Vec<usize> = (0..2).filter(|&i| l.deliverable(i)).collect();
        let d = dirs[i];
        let m = l.d[d].inflight.pop_front().unwrap();
        let code = m.w.code() ^ ((d as u64) << 63 >> 1);
        let w = m.w.clone();
        let inj = m.injected;
        l.ev(Stage::Delivered, d, &w, inj);
        l.n_delivered += 1;
        l.d[d].delivered.push_back(m);
        if let Some(w) = l.d[d].rx_waker.take() {
            w.wake();
        }
        code
    }
    fn next_deadline(&mut self) -> Option<Instant> {
        let l = self.link.lock().unwrap();
        (0..2).filter(|&i| !l.d[i].hold).filter_map(|i| l.d[i].inflight.front().map(|m| m.ready_at)).min()
    }
}

//! Seeded plan generators shared by the property families (swarm style: sizes, workload mix,
//! configuration pairs, link window, latency and schedule weights all vary per run).

use crate::duo::*;
use crate::exec::NCLS;
use simcore::Prng;

pub const WINDOWS: [u32; 6] = [1, 2, 3, 4, 8, 16];

pub fn gen_ep(r: &mut Prng) -> EpCfg {
    EpCfg {
        rwnd: *r.pick(&WINDOWS),
        threshold: *r.pick(&WINDOWS),
        dgram_buf: *r.pick(&[1usize, 2, 8, 512]),
        stream_buf: *r.pick(&[1usize, 2, 4, 16]),
        bind_buf: 0,
        retries: 3,
        ids: vec![],
        keepalive_ms: [0, 0],
    }
}
pub fn gen_link(r: &mut Prng) -> LinkCfg {
    LinkCfg { window: *r.pick(&[1usize, 2, 8, 1 << 20]), latency_ms: if r.chance(1, 4) { *r.pick(&[1u64, 20, 300]) } else { 0 }, drop_after_close: r.chance(1, 4), ws_client: r.below(3) as u8, bp_flush: r.chance(1, 2) }
}
/// schedule policy: uniform, or starve/favour one class
pub fn gen_weights(r: &mut Prng) -> [u32; NCLS] {
    let mut w = [8u32; NCLS];
    match r.below(4) {
        0 => {}
        1 => {
            for x in &mut w {
                *x = *r.pick(&[1u32, 4, 8, 32]);
            }
        }
        2 => w[r.below(NCLS)] = 1,
        _ => w[r.below(NCLS)] = 64,
    }
    w
}

#[derive(Clone, Copy)]
pub struct Prof {
    pub max_writes: usize,
    pub max_size: usize,
    /// per mille
    pub p_empty: u64,
    pub p_vectored: u64,
    pub p_flush: u64,
    pub p_yield: u64,
    /// how the writer ends: per mille of Shutdown; otherwise the op list just ends
    pub p_shutdown: u64,
    pub p_write_after_shutdown: u64,
    pub p_drop_mid: u64,
    /// reader: per mille of reading to EOF; otherwise it stops after a few reads
    pub p_read_eof: u64,
    pub p_fill: u64,
    pub p_reader_absent: u64,
    pub hold: u64,
    pub max_buf: usize,
}
pub const CLEAN: Prof = Prof { max_writes: 24, max_size: 48, p_empty: 40, p_vectored: 250, p_flush: 50, p_yield: 200, p_shutdown: 1000, p_write_after_shutdown: 0, p_drop_mid: 0, p_read_eof: 1000, p_fill: 400, p_reader_absent: 0, hold: 0, max_buf: 64 };

pub fn gen_wops(r: &mut Prng, p: &Prof) -> Vec<WOp> {
    let mut v = vec![];
    let n = r.below(p.max_writes + 1);
    for _ in 0..n {
        if r.chance(p.p_yield, 1000) {
            v.push(WOp::Yield(1 + r.below(4)));
        }
        if r.chance(p.p_drop_mid, 1000 * (n as u64 + 1)) {
            v.push(WOp::Drop);
            return v;
        }
        let size = |r: &mut Prng| if r.chance(p.p_empty, 1000) { 0 } else if r.chance(1, 20) { 1 + r.below(p.max_size * 40) } else { 1 + r.below(p.max_size) };
        if r.chance(p.p_vectored, 1000) {
            let k = 1 + r.below(4);
            // (one vectored write in forty is big: slices of 1-20 KiB, so that the write as a whole
            // crosses any internal size limit a few times, with slices lying across it)
            let big = r.chance(1, 40);
            let parts: Vec<usize> = (0..k).map(|_| if r.chance(1, 4) { 0 } else if big { 1024 + r.below(20_000) } else { size(r) }).collect();
            let all_empty = parts.iter().all(|x| *x == 0);
            if all_empty && p.p_empty == 0 {
                v.push(WOp::WriteV(vec![0, 1 + r.below(p.max_size), 0]));
            } else {
                v.push(WOp::WriteV(parts));
            }
        } else {
            v.push(WOp::Write(size(r)));
        }
        if r.chance(p.p_flush, 1000) {
            v.push(WOp::Flush);
        }
    }
    if r.chance(p.p_shutdown, 1000) {
        v.push(WOp::Shutdown);
        if r.chance(p.p_write_after_shutdown, 1000) {
            v.push(WOp::Write(1 + r.below(8)));
        }
        if r.chance(p.p_write_after_shutdown, 2000) {
            v.push(WOp::Shutdown);
        }
    }
    v
}
pub fn gen_rops(r: &mut Prng, p: &Prof) -> Vec<ROp> {
    let mut v = vec![];
    if r.chance(p.p_reader_absent, 1000) {
        return v;
    }
    let buf = |r: &mut Prng| if r.chance(1, 3) { 1 + r.below(4) } else { 1 + r.below(p.max_buf) };
    for _ in 0..r.below(4) {
        if r.chance(p.p_yield, 1000) {
            v.push(ROp::Yield(1 + r.below(6)));
        }
        if r.chance(p.p_fill, 1000) {
            v.push(ROp::Fill { consume: r.below(1 + p.max_buf / 2), times: 1 + r.below(5) });
        } else {
            v.push(ROp::Read { buf: buf(r), times: 1 + r.below(5) });
        }
    }
    if r.chance(p.p_read_eof, 1000) {
        if r.chance(p.p_fill, 1000) {
            v.push(ROp::FillEof { consume: r.below(1 + p.max_buf / 2) });
        } else {
            v.push(ROp::ReadEof { buf: buf(r) });
        }
    }
    v
}
pub fn gen_side(r: &mut Prng, p: &Prof) -> SidePlan {
    SidePlan { w: gen_wops(r, p), r: gen_rops(r, p), hold: r.chance(p.hold, 1000) }
}
pub fn gen_stream(r: &mut Prng, p: &Prof) -> StreamPlan {
    StreamPlan { opener: r.below(2), port: r.next() as u16, pad: if r.chance(1, 8) { r.below(200) } else { r.below(8) }, delay: r.below(6), after: None, after_abort: None, after_let_go: None, raw_host: None, sides: [gen_side(r, p), gen_side(r, p)] }
}
pub fn gen_dgtx(r: &mut Prng, from: usize, max_items: usize, min_len: usize) -> DgTx {
    let n = r.below(max_items + 1);
    let items = (0..n)
        .map(|_| DgItem {
            flow: match r.below(4) {
                0 => 0,
                1 => u32::MAX,
                _ => r.next() as u32,
            },
            hlen: match r.below(8) {
                0 => 0,
                1 => 255,
                _ => r.below(40),
            },
            port: r.next() as u16,
            len: min_len + if r.chance(1, 30) { r.below(65536) } else { r.below(40) },
            yields: if r.chance(1, 2) { 0 } else { r.below(4) },
        })
        .collect();
    DgTx { from, items }
}
pub fn base_plan(r: &mut Prng) -> Plan {
    let mut p = Plan::base();
    p.eps = [gen_ep(r), gen_ep(r)];
    p.link = gen_link(r);
    p.weights = gen_weights(r);
    // one run in six: the connection tasks feel tokio's cooperative budget (spurious Pending from
    // channel and timer operations after 128 of them in one turn of the outer future)
    p.coop = r.chance(1, 6);
    // one run in six: spurious polls of the connection tasks
    p.spurious = r.chance(1, 6);
    p
}

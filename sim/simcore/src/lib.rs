//! Engine-independent pieces of the deterministic-simulation machinery:
//! PRNG, batch runner (static partition over worker threads, results merged in run-index order),
//! violation classification against the committed known-findings file, plan minimisation,
//! replay files and evidence files.
//!
//! Nothing in here reads a real clock for anything but `wall_s` in the evidence, and nothing in
//! here draws from a PRNG in a logging path.

pub mod prng;
pub mod runner;

pub use prng::Prng;
pub use runner::*;

//! Batch runner, known-findings classification, minimiser, replay and evidence files.

use crate::prng::mix;
use serde_json::{Value, json};
use std::collections::{BTreeMap, HashSet};
use std::panic::{AssertUnwindSafe, catch_unwind};
use std::path::{Path, PathBuf};
use std::time::Instant;

#[derive(Clone, Copy, Debug, PartialEq, Eq)]
pub enum Tier {
    Quick,
    Thorough,
}
impl Tier {
    pub fn name(self) -> &'static str {
        match self {
            Tier::Quick => "quick",
            Tier::Thorough => "thorough",
        }
    }
}

#[derive(Clone, Debug)]
pub struct Violation {
    /// stable slug, e.g. `C02:prefix`; the part before ':' is the property the clause belongs to
    pub class: String,
    pub msg: String,
}
impl Violation {
    pub fn new(class: &str, msg: String) -> Self {
        Violation { class: class.to_string(), msg }
    }
    pub fn property(&self) -> &str {
        self.class.split(':').next().unwrap_or("")
    }
}

/// How the executor takes its scheduling decisions.
#[derive(Clone, Debug)]
pub enum Sched {
    /// every decision is drawn from a PRNG seeded with this value (plus the plan's weights)
    Seeded(u64),
    /// decision i = recorded[i] modulo the size of the enabled set; index 0 once exhausted
    Recorded(Vec<u32>),
}

#[derive(Clone, Debug, Default)]
pub struct Outcome {
    pub violations: Vec<Violation>,
    /// digest of the complete event log of the execution
    pub digest: u64,
    pub steps: u64,
    /// simulated (virtual) milliseconds covered
    pub sim_ms: u64,
    /// non-trivial by the family's own rule
    pub nontrivial: bool,
    /// rare-condition probes and fired-fault counters (`fault:<kind>`), measured in this run
    pub probes: BTreeMap<String, u64>,
    /// recorded decisions (filled only when asked for)
    pub decisions: Vec<u32>,
    /// short human-readable summary of what happened (kept for samples / replay files)
    pub note: String,
}
impl Outcome {
    pub fn probe(&mut self, name: &str, n: u64) {
        if n > 0 {
            *self.probes.entry(name.to_string()).or_insert(0) += n;
        }
    }
    pub fn violate(&mut self, class: &str, msg: String) {
        if self.violations.len() < 32 {
            self.violations.push(Violation::new(class, msg));
        }
    }
}

/// One scenario family of a property check. Plans are JSON values so that generic minimisation,
/// replay files and evidence samples need no per-family code; `exec` must be *total*: any plan the
/// generic shrinker can derive from a generated plan is executable (operations that no longer
/// make sense are skipped), and panics are caught by the runner.
pub trait Family: Sync + Send {
    fn name(&self) -> &'static str;
    /// number of runs in the given tier
    fn runs(&self, tier: Tier) -> u64;
    /// plan number `index` of the batch and the schedule seed it runs under. Families that
    /// enumerate a finite space map the index to a point of that space; everything else is drawn
    /// from `mix(batch_seed, family, index)`. Crash-point sweeps keep plan and schedule seed fixed
    /// over a group of indices and move only the fault's trigger step.
    fn generate(&self, batch_seed: u64, index: u64, tier: Tier) -> (Value, u64);
    fn exec(&self, plan: &Value, sched: &Sched, record: bool) -> Outcome;
    /// what makes a run non-trivial / how runs are generated (goes into the evidence `rule`)
    fn rule(&self) -> &'static str;
    /// true if `generate` enumerates a finite space completely within `runs(tier)`
    fn exhaustive(&self, _tier: Tier) -> bool {
        false
    }
    /// false for engines whose interleaving is decided by a seeded runtime rather than by a recorded
    /// decision list (system-level simulator, stream-fault simulator): replays then carry the seed
    fn records_decisions(&self) -> bool {
        true
    }
}

pub struct Check {
    pub property: &'static str,
    pub engine: &'static str,
    pub level: &'static str,
    pub families: Vec<Box<dyn Family>>,
    /// probes that must be hit at least once per batch (a probe stuck at zero is a harness error,
    /// exit 2: the workload no longer reaches what the property is about)
    pub required_probes: Vec<&'static str>,
    pub assumptions: Vec<&'static str>,
    pub real: Vec<&'static str>,
    pub stub: Vec<&'static str>,
}

pub struct KnownFindings {
    /// (property, class pattern, description)
    pub findings: Vec<(String, String, String)>,
    pub fixed: Vec<String>,
}
impl KnownFindings {
    pub fn load(path: &Path) -> Self {
        let mut k = KnownFindings { findings: vec![], fixed: vec![] };
        let Ok(txt) = std::fs::read_to_string(path) else { return k };
        for line in txt.lines() {
            let line = line.trim();
            if let Some(rest) = line.strip_prefix("finding:") {
                let mut prop = String::new();
                let mut class = String::new();
                let mut desc = vec![];
                for tok in rest.split_whitespace() {
                    if let Some(p) = tok.strip_prefix("property=") {
                        prop = p.to_string();
                    } else if let Some(c) = tok.strip_prefix("class=") {
                        class = c.to_string();
                    } else {
                        desc.push(tok);
                    }
                }
                if !prop.is_empty() && !class.is_empty() {
                    k.findings.push((prop, class, desc.join(" ")));
                }
            } else if let Some(rest) = line.strip_prefix("fixed:") {
                k.fixed.push(rest.trim().to_string());
            }
        }
        k
    }
    /// a listed finding suppresses exactly the violations of its class (exact match)
    pub fn matches(&self, property: &str, class: &str) -> Option<&str> {
        self.findings.iter().find(|(p, c, _)| p == property && c == class).map(|(_, _, d)| d.as_str())
    }
}

thread_local! {
    static LAST_PANIC: std::cell::RefCell<String> = const { std::cell::RefCell::new(String::new()) };
}
pub fn install_quiet_panic_hook() {
    std::panic::set_hook(Box::new(|info| {
        let loc = info.location().map(|l| format!("{}:{}", l.file(), l.line())).unwrap_or_default();
        let msg = if let Some(s) = info.payload().downcast_ref::<&str>() {
            (*s).to_string()
        } else if let Some(s) = info.payload().downcast_ref::<String>() {
            s.clone()
        } else {
            "panic".to_string()
        };
        LAST_PANIC.with(|p| *p.borrow_mut() = format!("{msg} at {loc}"));
    }));
}

/// exec with panics turned into a `<property>:panic` violation
pub fn exec_caught(property: &str, fam: &dyn Family, plan: &Value, sched: &Sched, record: bool) -> Outcome {
    match catch_unwind(AssertUnwindSafe(|| fam.exec(plan, sched, record))) {
        Ok(o) => o,
        Err(_) => {
            let msg = LAST_PANIC.with(|p| p.borrow().clone());
            let mut o = Outcome::default();
            // a panic raised by the harness itself (file under /verif) is a harness error, not a finding
            let class = if msg.contains("/verif/") { "HARNESS:panic".to_string() } else { format!("{property}:panic") };
            o.violations.push(Violation { class, msg: format!("panic: {msg}") });
            o
        }
    }
}

#[derive(Default)]
struct Agg {
    evaluations: u64,
    nontrivial: u64,
    digests: HashSet<u64>,
    all_digests_xor: u64,
    steps: u64,
    sim_ms: u64,
    probes: BTreeMap<String, u64>,
    viol: Vec<(u64, Violation)>,
    samples: Vec<(u64, Value)>,
}

pub struct BatchResult {
    pub exit: i32,
}

pub struct Opts {
    pub tier: Tier,
    pub seed: u64,
    pub threads: usize,
    pub runs_override: Option<u64>,
    pub verif_dir: PathBuf,
    pub write_evidence: bool,
    pub only_family: Option<String>,
    /// print one line per run with its digest (determinism self-check)
    pub dump_digests: bool,
}

pub fn default_seed() -> u64 {
    std::env::var("VERIF_SEED").ok().and_then(|s| s.trim().parse::<u64>().ok()).unwrap_or(20_260_924)
}

// ------------------------------------------------------------------ wedge watchdog
//
// A run is a pure computation over simulated time: milliseconds of wall clock. A run that does not
// return at all (the code under test blocks the thread for real -- a lock taken twice on one thread
// -- or spins without yielding) cannot be judged by an oracle that runs afterwards. The watchdog
// turns it into a reported violation of the property being checked (class `<id>:run-wedged`) with a
// replay file, instead of a check that hangs. Wall clock is used only for this "never returns"
// verdict (limit: VERIF_WEDGE_SECS, default 180 s; the slowest legitimate run is < 2 s).

struct WatchSlot {
    since: Instant,
    family: String,
    index: Option<u64>,
    plan: Option<Value>,
    sched: Sched,
}
static WATCH: std::sync::Mutex<BTreeMap<u64, WatchSlot>> = std::sync::Mutex::new(BTreeMap::new());
static WATCH_NEXT: std::sync::atomic::AtomicU64 = std::sync::atomic::AtomicU64::new(0);

pub struct WatchGuard(u64);
impl Drop for WatchGuard {
    fn drop(&mut self) {
        WATCH.lock().unwrap_or_else(|e| e.into_inner()).remove(&self.0);
    }
}
fn watch(family: &str, index: Option<u64>, plan: Option<&Value>, sched: &Sched) -> WatchGuard {
    let id = WATCH_NEXT.fetch_add(1, std::sync::atomic::Ordering::Relaxed);
    WATCH.lock().unwrap_or_else(|e| e.into_inner()).insert(id, WatchSlot { since: Instant::now(), family: family.to_string(), index, plan: plan.cloned(), sched: sched.clone() });
    WatchGuard(id)
}
fn wedge_limit() -> f64 {
    std::env::var("VERIF_WEDGE_SECS").ok().and_then(|s| s.parse().ok()).unwrap_or(180.0)
}
/// The oldest run that has been executing for longer than the limit, if any.
fn wedged() -> Option<(String, Option<u64>, Option<Value>, Sched, f64)> {
    let w = WATCH.lock().unwrap_or_else(|e| e.into_inner());
    let lim = wedge_limit();
    w.values().filter(|s| s.since.elapsed().as_secs_f64() > lim).max_by(|a, b| a.since.elapsed().cmp(&b.since.elapsed())).map(|s| (s.family.clone(), s.index, s.plan.clone(), s.sched.clone(), s.since.elapsed().as_secs_f64()))
}
/// Watchdog for a batch: never returns normally once a wedged run is found (writes the replay and
/// the evidence, prints the VIOLATION line, exits 1).
fn batch_watchdog(check: &Check, o: &Opts, stop: &std::sync::atomic::AtomicBool, t0: Instant) {
    while !stop.load(std::sync::atomic::Ordering::Relaxed) {
        std::thread::sleep(std::time::Duration::from_millis(500));
        let Some((famname, index, plan, sched, secs)) = wedged() else { continue };
        let Some(fam) = check.families.iter().find(|f| f.name() == famname) else { continue };
        let (plan, sched) = match (plan, index) {
            (Some(p), _) => (p, sched),
            (None, Some(i)) => {
                let (p, seed) = fam.generate(mix(o.seed, &format!("{}/{}", check.property, fam.name()), 0), i, o.tier);
                (p, Sched::Seeded(seed))
            }
            _ => continue,
        };
        let class = format!("{}:run-wedged", check.property);
        let msg = format!("the run did not return within {secs:.0} s of wall clock (every other run takes milliseconds): the code under test blocked its thread or spins without yielding");
        let rec = Outcome { violations: vec![Violation { class: class.clone(), msg: msg.clone() }], note: "wedged".into(), ..Default::default() };
        let m = Minimised { plan, sched_seed: 0, sched, decisions: vec![], outcome: rec, candidates_tried: 0 };
        let path = write_replay(&o.verif_dir.join("replays"), check, fam.as_ref(), o, index.unwrap_or(0), &class, &m);
        println!("violation class={} family={} run={:?} : {}", class, fam.name(), index, msg);
        println!("VIOLATION property={} replay={}", check.property, path.display());
        if o.write_evidence {
            let ev = json!({
                "property_id": check.property, "tier": o.tier.name(), "seed": o.seed, "level": check.level,
                "coverage": {"evaluations": 0, "distinct_nontrivial": 0, "rule": "batch aborted by the wedge watchdog: a run never returned; see the replay file", "samples": [m.plan], "exhaustive": false,
                    "components_real": check.real, "components_stub": check.stub, "engine": check.engine},
                "assumptions": check.assumptions, "wall_s": t0.elapsed().as_secs_f64(), "violations": 1,
            });
            let dir = o.verif_dir.join("evidence");
            std::fs::create_dir_all(&dir).ok();
            std::fs::write(dir.join(format!("{}.json", check.property)), serde_json::to_string_pretty(&ev).unwrap()).ok();
        }
        println!("{} {} seed={} violations=1 exit=1 (aborted by the wedge watchdog)", check.property, o.tier.name(), o.seed);
        std::process::exit(1);
    }
}

fn run_family(check: &Check, fam: &dyn Family, o: &Opts) -> (Agg, Vec<(u64, u64)>) {
    let n = o.runs_override.unwrap_or_else(|| fam.runs(o.tier));
    let threads = o.threads.max(1);
    let tag = format!("{}/{}", check.property, fam.name());
    let mut parts: Vec<(Agg, Vec<(u64, u64)>)> = std::thread::scope(|s| {
        let hs: Vec<_> = (0..threads)
            .map(|w| {
                let tag = tag.clone();
                s.spawn(move || {
                    let mut a = Agg::default();
                    let mut digs = vec![];
                    let mut i = w as u64;
                    while i < n {
                        let (plan, seed) = fam.generate(mix(o.seed, &tag, 0), i, o.tier);
                        let out = {
                            let _g = watch(fam.name(), Some(i), None, &Sched::Seeded(seed));
                            exec_caught(check.property, fam, &plan, &Sched::Seeded(seed), false)
                        };
                        a.evaluations += 1;
                        a.steps += out.steps;
                        a.sim_ms += out.sim_ms;
                        a.all_digests_xor ^= out.digest.wrapping_mul(i | 1);
                        if o.dump_digests {
                            digs.push((i, out.digest));
                        }
                        if out.nontrivial {
                            a.nontrivial += 1;
                            a.digests.insert(out.digest);
                        }
                        for (k, v) in &out.probes {
                            *a.probes.entry(k.clone()).or_insert(0) += v;
                        }
                        if i < 3 {
                            a.samples.push((i, json!({"family": fam.name(), "run_index": i, "plan": plan, "steps": out.steps, "outcome": out.note})));
                        }
                        for v in out.violations {
                            if a.viol.len() < 64 {
                                a.viol.push((i, v));
                            }
                        }
                        i += threads as u64;
                    }
                    (a, digs)
                })
            })
            .collect();
        hs.into_iter().map(|h| h.join().expect("worker")).collect()
    });
    let mut tot = Agg::default();
    let mut digs = vec![];
    for (a, d) in parts.drain(..) {
        tot.evaluations += a.evaluations;
        tot.nontrivial += a.nontrivial;
        tot.digests.extend(a.digests);
        tot.all_digests_xor ^= a.all_digests_xor;
        tot.steps += a.steps;
        tot.sim_ms += a.sim_ms;
        for (k, v) in a.probes {
            *tot.probes.entry(k).or_insert(0) += v;
        }
        tot.viol.extend(a.viol);
        tot.samples.extend(a.samples);
        digs.extend(d);
    }
    tot.viol.sort_by(|a, b| a.0.cmp(&b.0).then(a.1.class.cmp(&b.1.class)));
    tot.samples.sort_by_key(|s| s.0);
    digs.sort();
    (tot, digs)
}

// ------------------------------------------------------------------ minimisation

/// Generic structural shrinking of a JSON plan: drop array elements, shrink integers.
/// Object keys starting with '_' are left alone.
pub fn shrink_candidates(plan: &Value) -> Vec<Value> {
    let mut paths = vec![];
    collect_paths(plan, &mut vec![], &mut paths);
    let mut out = vec![];
    // structural removals first (largest effect), then integer shrinks
    for (p, kind) in &paths {
        if let PathKind::ArrayElem(len) = kind {
            let _ = len;
            let mut c = plan.clone();
            if remove_at(&mut c, p) {
                out.push(c);
            }
        }
    }
    for (p, kind) in &paths {
        if let PathKind::Int(v) = kind {
            for nv in shrink_int(*v) {
                let mut c = plan.clone();
                if set_at(&mut c, p, json!(nv)) {
                    out.push(c);
                }
            }
        }
    }
    out
}
#[derive(Clone, Debug)]
enum PathKind {
    ArrayElem(usize),
    Int(i64),
}
#[derive(Clone, Debug)]
enum Seg {
    K(String),
    I(usize),
}
fn collect_paths(v: &Value, cur: &mut Vec<Seg>, out: &mut Vec<(Vec<Seg>, PathKind)>) {
    match v {
        Value::Array(a) => {
            for (i, x) in a.iter().enumerate() {
                cur.push(Seg::I(i));
                out.push((cur.clone(), PathKind::ArrayElem(a.len())));
                collect_paths(x, cur, out);
                cur.pop();
            }
        }
        Value::Object(m) => {
            for (k, x) in m {
                if k.starts_with('_') {
                    continue;
                }
                cur.push(Seg::K(k.clone()));
                collect_paths(x, cur, out);
                cur.pop();
            }
        }
        Value::Number(n) => {
            if let Some(i) = n.as_i64() {
                if i > 1 {
                    out.push((cur.clone(), PathKind::Int(i)));
                }
            }
        }
        _ => {}
    }
}
fn shrink_int(v: i64) -> Vec<i64> {
    let mut c = vec![];
    if v > 1 {
        c.push(1);
    }
    if v > 3 {
        c.push(v / 2);
    }
    if v > 2 {
        c.push(v - 1);
    }
    c
}
fn get_mut<'a>(v: &'a mut Value, p: &[Seg]) -> Option<&'a mut Value> {
    let mut cur = v;
    for s in p {
        cur = match s {
            Seg::K(k) => cur.get_mut(k.as_str())?,
            Seg::I(i) => cur.get_mut(*i)?,
        };
    }
    Some(cur)
}
fn remove_at(v: &mut Value, p: &[Seg]) -> bool {
    let (last, head) = p.split_last().unwrap();
    let Some(parent) = get_mut(v, head) else { return false };
    match (parent, last) {
        (Value::Array(a), Seg::I(i)) if *i < a.len() => {
            a.remove(*i);
            true
        }
        _ => false,
    }
}
fn set_at(v: &mut Value, p: &[Seg], nv: Value) -> bool {
    match get_mut(v, p) {
        Some(x) => {
            *x = nv;
            true
        }
        None => false,
    }
}

fn plan_size(v: &Value) -> usize {
    match v {
        Value::Array(a) => 1 + a.iter().map(plan_size).sum::<usize>(),
        Value::Object(m) => 1 + m.values().map(plan_size).sum::<usize>(),
        Value::Number(n) => 1 + (n.as_i64().unwrap_or(0).unsigned_abs().min(1 << 20) as f64).log2().max(0.0) as usize,
        _ => 1,
    }
}

pub struct Minimised {
    pub plan: Value,
    pub sched_seed: u64,
    /// the schedule under which `outcome` was produced
    pub sched: Sched,
    pub decisions: Vec<u32>,
    pub outcome: Outcome,
    pub candidates_tried: u64,
}

/// Delta-debug the plan, keeping a candidate only if the same violation class persists under one
/// of a handful of schedule seeds; then record the decision list and shorten it.
pub fn minimise(property: &str, fam: &dyn Family, plan: &Value, seed: u64, class: &str, budget_s: f64) -> Minimised {
    let t0 = Instant::now();
    // debugging aid: VERIF_NO_MINIMISE=1 keeps the plan as generated
    let budget_s = if std::env::var_os("VERIF_NO_MINIMISE").is_some() { -1.0 } else { budget_s };
    let has = |o: &Outcome| o.violations.iter().any(|v| v.class == class);
    let mut cur = plan.clone();
    let mut cur_seed = seed;
    let mut tried = 0u64;
    let alt: Vec<u64> = (0..4).map(|k| mix(seed, "minimise", k)).collect();
    'outer: loop {
        let cands = shrink_candidates(&cur);
        let mut improved = false;
        for c in cands {
            if t0.elapsed().as_secs_f64() > budget_s {
                break 'outer;
            }
            if plan_size(&c) >= plan_size(&cur) {
                continue;
            }
            let mut seeds = vec![cur_seed];
            seeds.extend(alt.iter().copied());
            for s in seeds {
                tried += 1;
                let _g = watch(fam.name(), None, Some(&c), &Sched::Seeded(s));
                let o = exec_caught(property, fam, &c, &Sched::Seeded(s), false);
                if has(&o) {
                    cur = c.clone();
                    cur_seed = s;
                    improved = true;
                    break;
                }
            }
            if improved {
                break;
            }
        }
        if !improved {
            break;
        }
    }
    // record and shorten the schedule
    let rec = {
        let _g = watch(fam.name(), None, Some(&cur), &Sched::Seeded(cur_seed));
        exec_caught(property, fam, &cur, &Sched::Seeded(cur_seed), true)
    };
    if !fam.records_decisions() || rec.decisions.is_empty() {
        return Minimised { plan: cur, sched_seed: cur_seed, sched: Sched::Seeded(cur_seed), decisions: vec![], outcome: rec, candidates_tried: tried };
    }
    let full = rec.decisions.clone();
    let repro = |d: &[u32]| -> Option<Outcome> {
        let _g = watch(fam.name(), None, Some(&cur), &Sched::Recorded(d.to_vec()));
        let o = exec_caught(property, fam, &cur, &Sched::Recorded(d.to_vec()), false);
        if has(&o) { Some(o) } else { None }
    };
    let mut best = full.clone();
    let mut best_out = repro(&full);
    if best_out.is_some() {
        let (mut lo, mut hi) = (0usize, full.len());
        while lo < hi && t0.elapsed().as_secs_f64() < budget_s * 1.5 {
            let mid = (lo + hi) / 2;
            tried += 1;
            if let Some(o) = repro(&full[..mid]) {
                hi = mid;
                best = full[..mid].to_vec();
                best_out = Some(o);
            } else {
                lo = mid + 1;
            }
        }
    }
    match best_out {
        Some(o) => Minimised { plan: cur, sched_seed: cur_seed, sched: Sched::Recorded(best.clone()), decisions: best, outcome: o, candidates_tried: tried },
        // recorded replay did not reproduce (should not happen: the determinism self-check guards it);
        // fall back to the seeded execution so that the replay file is still exact
        None => Minimised { plan: cur, sched_seed: cur_seed, sched: Sched::Seeded(cur_seed), decisions: vec![], outcome: rec, candidates_tried: tried },
    }
}

// ------------------------------------------------------------------ replay files

pub fn write_replay(dir: &Path, check: &Check, fam: &dyn Family, o: &Opts, run_index: u64, class: &str, m: &Minimised) -> PathBuf {
    std::fs::create_dir_all(dir).ok();
    let slug: String = class.chars().map(|c| if c.is_ascii_alphanumeric() { c } else { '_' }).collect();
    let path = dir.join(format!("{}-{}-{}-{}.json", check.property, fam.name(), slug, run_index));
    let msg = m.outcome.violations.iter().find(|v| v.class == class).map(|v| v.msg.clone()).unwrap_or_default();
    let sched = match &m.sched {
        Sched::Seeded(s) => json!({"seeded": s}),
        Sched::Recorded(d) => json!({"recorded": d, "found_with_seed": m.sched_seed}),
    };
    let v = json!({
        "property": check.property, "engine": check.engine, "family": fam.name(), "class": class,
        "verif_seed": o.seed, "run_index": run_index, "tier": o.tier.name(),
        "plan": m.plan, "schedule": sched,
        "expect": {"digest": format!("{:016x}", m.outcome.digest), "steps": m.outcome.steps, "violation": msg, "note": m.outcome.note},
        "minimiser": {"candidates_tried": m.candidates_tried},
    });
    std::fs::write(&path, serde_json::to_string_pretty(&v).unwrap()).ok();
    path
}

/// Re-execute a replay file. Exit 1 + VIOLATION line if it reproduces (same class, same digest),
/// exit 2 if the class reproduces under a different digest or not at all.
pub fn replay(check: &Check, path: &Path) -> i32 {
    let Ok(txt) = std::fs::read_to_string(path) else {
        eprintln!("cannot read {}", path.display());
        return 2;
    };
    let Ok(v) = serde_json::from_str::<Value>(&txt) else {
        eprintln!("not JSON: {}", path.display());
        return 2;
    };
    let famname = v["family"].as_str().unwrap_or("");
    let Some(fam) = check.families.iter().find(|f| f.name() == famname) else {
        eprintln!("unknown family {famname}");
        return 2;
    };
    let class = v["class"].as_str().unwrap_or("").to_string();
    let sched = if let Some(r) = v["schedule"]["recorded"].as_array() {
        Sched::Recorded(r.iter().map(|x| x.as_u64().unwrap_or(0) as u32).collect())
    } else {
        Sched::Seeded(v["schedule"]["seeded"].as_u64().unwrap_or(0))
    };
    // a replayed wedge wedges again: report it from a watchdog thread
    {
        let (prop, file, class) = (check.property.to_string(), path.display().to_string(), class.clone());
        std::thread::spawn(move || loop {
            std::thread::sleep(std::time::Duration::from_millis(500));
            if let Some((_, _, _, _, secs)) = wedged() {
                println!("replay {file}: class={class} the run did not return within {secs:.0} s");
                if class.ends_with(":run-wedged") {
                    println!("VIOLATION property={prop} replay={file}");
                    std::process::exit(1);
                }
                std::process::exit(2);
            }
        });
    }
    let _g = watch(fam.name(), None, Some(&v["plan"]), &sched);
    let out = exec_caught(check.property, fam.as_ref(), &v["plan"], &sched, false);
    let want = v["expect"]["digest"].as_str().unwrap_or("");
    let got = format!("{:016x}", out.digest);
    let hit = out.violations.iter().find(|x| x.class == class);
    println!("replay {}: class={} digest want={} got={} steps={}", path.display(), class, want, got, out.steps);
    match hit {
        Some(x) if want == got => {
            println!("  {}", x.msg);
            println!("VIOLATION property={} replay={}", check.property, path.display());
            1
        }
        Some(x) => {
            println!("  {} (digest differs: execution not identical)", x.msg);
            2
        }
        None => {
            println!("  violation did not reproduce; violations now: {:?}", out.violations.iter().map(|v| &v.class).collect::<Vec<_>>());
            if want == got { 0 } else { 2 }
        }
    }
}

// ------------------------------------------------------------------ the batch

pub fn run_check(check: &Check, o: &Opts) -> i32 {
    let t0 = Instant::now();
    let known = KnownFindings::load(&o.verif_dir.join("known_findings.txt"));
    let mut evaluations = 0u64;
    let mut distinct = 0u64;
    let mut steps = 0u64;
    let mut sim_ms = 0u64;
    let mut probes: BTreeMap<String, u64> = BTreeMap::new();
    let mut samples = vec![];
    let mut fam_rows = vec![];
    let mut rules = vec![];
    let mut exit = 0;
    let mut n_viol = 0u64;
    let mut known_printed: Vec<String> = vec![];
    let mut other_prop: BTreeMap<String, u64> = BTreeMap::new();
    let mut exhaustive = true;
    let stop_watchdog = std::sync::atomic::AtomicBool::new(false);
    let exit = std::thread::scope(|scope| {
    scope.spawn(|| batch_watchdog(check, o, &stop_watchdog, t0));
    for fam in &check.families {
        if let Some(f) = &o.only_family {
            if f != fam.name() {
                continue;
            }
        }
        let tf = Instant::now();
        let (a, digs) = run_family(check, fam.as_ref(), o);
        if o.dump_digests {
            for (i, d) in &digs {
                println!("DIGEST {} {} {} {:016x}", check.property, fam.name(), i, d);
            }
        }
        evaluations += a.evaluations;
        distinct += a.digests.len() as u64;
        steps += a.steps;
        sim_ms += a.sim_ms;
        for (k, v) in &a.probes {
            *probes.entry(k.clone()).or_insert(0) += v;
        }
        samples.extend(a.samples.iter().take(2).map(|s| s.1.clone()));
        exhaustive &= fam.exhaustive(o.tier);
        rules.push(format!("[{}] {}", fam.name(), fam.rule()));
        fam_rows.push(json!({"family": fam.name(), "runs": a.evaluations, "nontrivial": a.nontrivial, "distinct_nontrivial_digests": a.digests.len(), "steps": a.steps, "wall_s": tf.elapsed().as_secs_f64(), "batch_digest": format!("{:016x}", a.all_digests_xor), "exhaustive": fam.exhaustive(o.tier)}));
        // ---- violations: group by class in order of first occurrence
        let mut seen: Vec<String> = vec![];
        for (idx, v) in &a.viol {
            if seen.contains(&v.class) {
                continue;
            }
            seen.push(v.class.clone());
            if v.property() == "HARNESS" {
                eprintln!("HARNESS ERROR in {} run {}: {}", fam.name(), idx, v.msg);
                exit = exit.max(2);
                continue;
            }
            if v.property() != check.property {
                // a clause that belongs to another property: counted, not reported here
                *other_prop.entry(v.class.clone()).or_insert(0) += 1;
                continue;
            }
            if let Some(desc) = known.matches(check.property, &v.class) {
                let line = format!("KNOWN-FINDING: property={} class={} {}", check.property, v.class, desc);
                if !known_printed.contains(&line) {
                    println!("{line}");
                    println!("  (first seen: family {} run {}: {})", fam.name(), idx, v.msg);
                    known_printed.push(line);
                }
                continue;
            }
            if seen.iter().filter(|c| c.starts_with(check.property)).count() > 4 {
                continue; // report at most a few classes per family in detail
            }
            n_viol += 1;
            let (plan, seed) = fam.generate(mix(o.seed, &format!("{}/{}", check.property, fam.name()), 0), *idx, o.tier);
            let m = minimise(check.property, fam.as_ref(), &plan, seed, &v.class, if o.tier == Tier::Quick { 20.0 } else { 60.0 });
            let path = write_replay(&o.verif_dir.join("replays"), check, fam.as_ref(), o, *idx, &v.class, &m);
            println!("violation class={} family={} run={} : {}", v.class, fam.name(), idx, v.msg);
            println!("VIOLATION property={} replay={}", check.property, path.display());
            exit = exit.max(1);
        }
    }
    for p in &check.required_probes {
        if o.only_family.is_none() && o.runs_override.is_none() && probes.get(*p).copied().unwrap_or(0) == 0 {
            eprintln!("HARNESS ERROR: required probe `{p}` was never hit in this batch");
            // a reported violation stays a violation (exit 1): the change that broke the property
            // may well be what silenced the probe
            if exit != 1 {
                exit = exit.max(2);
            }
        }
    }
    let wall = t0.elapsed().as_secs_f64();
    let (faults, rare): (BTreeMap<_, _>, BTreeMap<_, _>) = probes.iter().partition(|(k, _)| k.starts_with("fault:"));
    let ev = json!({
        "property_id": check.property,
        "tier": o.tier.name(),
        "seed": o.seed,
        "level": check.level,
        "coverage": {
            "evaluations": evaluations,
            "distinct_nontrivial": distinct,
            "rule": format!("distinct = distinct 64-bit digests of the complete event log among runs that are non-trivial by the family's rule. {}", rules.join(" ")),
            "samples": samples,
            "exhaustive": exhaustive && evaluations > 0,
            "families": fam_rows,
            "steps": steps,
            "simulated_seconds": sim_ms as f64 / 1000.0,
            "runs_per_hour": if wall > 0.0 { (evaluations as f64 / wall * 3600.0) as u64 } else { 0 },
            "faults_fired": faults,
            "probes": rare,
            "alarms_of_other_properties_seen": other_prop,
            "components_real": check.real,
            "components_stub": check.stub,
            "known_findings_printed": known_printed,
            "engine": check.engine,
            "threads": o.threads,
        },
        "assumptions": check.assumptions,
        "wall_s": wall,
        "violations": n_viol,
    });
    if o.write_evidence {
        let dir = o.verif_dir.join("evidence");
        std::fs::create_dir_all(&dir).ok();
        let p = dir.join(format!("{}.json", check.property));
        if std::fs::write(&p, serde_json::to_string_pretty(&ev).unwrap()).is_err() {
            eprintln!("cannot write evidence {}", p.display());
            exit = exit.max(2);
        }
    }
    println!(
        "{} {} seed={} runs={} distinct_nontrivial={} steps={} sim_s={:.1} wall_s={:.1} violations={} exit={}",
        check.property, o.tier.name(), o.seed, evaluations, distinct, steps, sim_ms as f64 / 1000.0, wall, n_viol, exit
    );
    stop_watchdog.store(true, std::sync::atomic::Ordering::Relaxed);
    exit
    })
    ;
    exit
}

/// Standard CLI shared by the engine binaries:
///   <bin> check <ID> [--tier quick|thorough] [--runs N] [--threads T] [--family F] [--no-evidence] [--dump-digests]
///   <bin> replay <ID> <file>
pub fn cli(args: &[String], lookup: &dyn Fn(&str) -> Option<Check>) -> i32 {
    install_quiet_panic_hook();
    let verif_dir = PathBuf::from(std::env::var("VERIF_DIR").unwrap_or_else(|_| "/verif".into()));
    let get = |flag: &str| args.iter().position(|a| a == flag).and_then(|i| args.get(i + 1)).cloned();
    match args.get(1).map(|s| s.as_str()) {
        Some("check") => {
            let Some(id) = args.get(2) else { return 2 };
            let Some(check) = lookup(id) else {
                eprintln!("unknown property {id}");
                return 2;
            };
            let tier = match get("--tier").or_else(|| std::env::var("VERIF_TIER").ok()).as_deref() {
                Some("thorough") => Tier::Thorough,
                _ => Tier::Quick,
            };
            let o = Opts {
                tier,
                seed: default_seed(),
                threads: get("--threads").and_then(|s| s.parse().ok()).unwrap_or_else(|| std::thread::available_parallelism().map(|n| n.get()).unwrap_or(4)),
                runs_override: get("--runs").and_then(|s| s.parse().ok()),
                verif_dir,
                write_evidence: !args.iter().any(|a| a == "--no-evidence"),
                only_family: get("--family"),
                dump_digests: args.iter().any(|a| a == "--dump-digests"),
            };
            run_check(&check, &o)
        }
        Some("replay") => {
            let (Some(id), Some(file)) = (args.get(2), args.get(3)) else { return 2 };
            let Some(check) = lookup(id) else { return 2 };
            replay(&check, Path::new(file))
        }
        _ => {
            eprintln!("usage: check <ID> [--tier quick|thorough] [--runs N] [--threads T] [--family F] | replay <ID> <file>");
            2
        }
    }
}

//! splitmix64. One integer decides everything: every choice of a run is drawn from a `Prng`
//! derived from (VERIF_SEED, property, family, run index).

#[derive(Clone, Debug)]
pub struct Prng(pub u64);

impl Prng {
    pub fn new(seed: u64) -> Self {
        Prng(seed)
    }
    #[inline]
    pub fn next(&mut self) -> u64 {
        self.0 = self.0.wrapping_add(0x9E37_79B9_7F4A_7C15);
        let mut z = self.0;
        z = (z ^ (z >> 30)).wrapping_mul(0xBF58_476D_1CE4_E5B9);
        z = (z ^ (z >> 27)).wrapping_mul(0x94D0_49BB_1331_11EB);
        z ^ (z >> 31)
    }
    /// uniform in 0..n (n > 0)
    #[inline]
    pub fn below(&mut self, n: usize) -> usize {
        debug_assert!(n > 0);
        (self.next() % n as u64) as usize
    }
    /// uniform in lo..=hi
    #[inline]
    pub fn range(&mut self, lo: usize, hi: usize) -> usize {
        lo + self.below(hi - lo + 1)
    }
    #[inline]
    pub fn chance(&mut self, num: u64, den: u64) -> bool {
        self.next() % den < num
    }
    pub fn pick<'a, T>(&mut self, xs: &'a [T]) -> &'a T {
        &xs[self.below(xs.len())]
    }
    /// weighted index; weights must not all be zero
    pub fn weighted(&mut self, w: &[u32]) -> usize {
        let tot: u64 = w.iter().map(|x| *x as u64).sum();
        let mut r = self.next() % tot.max(1);
        for (i, x) in w.iter().enumerate() {
            if r < *x as u64 {
                return i;
            }
            r -= *x as u64;
        }
        w.len() - 1
    }
    pub fn fork(&mut self) -> Prng {
        Prng(self.next())
    }
    pub fn bytes(&mut self, n: usize) -> Vec<u8> {
        (0..n).map(|_| self.next() as u8).collect()
    }
}

/// Derive a run seed from the batch seed, a string tag and an index.
pub fn mix(seed: u64, tag: &str, i: u64) -> u64 {
    let mut h: u64 = 0xcbf2_9ce4_8422_2325 ^ seed;
    for b in tag.bytes() {
        h = (h ^ b as u64).wrapping_mul(0x1000_0000_01b3);
    }
    let mut p = Prng(h ^ i.wrapping_mul(0xD6E8_FEB8_6659_FD93));
    p.next()
}

/// FNV-1a style running digest used for execution digests.
#[derive(Clone, Copy, Debug)]
pub struct Digest(pub u64);
impl Default for Digest {
    fn default() -> Self {
        Digest(0xcbf2_9ce4_8422_2325)
    }
}
impl Digest {
    #[inline]
    pub fn u64(&mut self, x: u64) {
        for i in 0..8 {
            self.0 = (self.0 ^ ((x >> (i * 8)) & 0xff)).wrapping_mul(0x1000_0000_01b3);
        }
    }
    #[inline]
    pub fn bytes(&mut self, b: &[u8]) {
        for x in b {
            self.0 = (self.0 ^ *x as u64).wrapping_mul(0x1000_0000_01b3);
        }
        self.u64(b.len() as u64);
    }
    pub fn str(&mut self, s: &str) {
        self.bytes(s.as_bytes())
    }
}

//! Connector for hyper-util's legacy client over the simulated network: the seam for the server's
//! backend proxy (`State::with_backend`). Plain HTTP only; the authority must be `ip:port`.

use crate::TcpStream;
use hyper_util::client::legacy::connect::{Connected, Connection};
use hyper_util::rt::TokioIo;
use std::future::Future;
use std::io;
use std::pin::Pin;
use std::task::{Context, Poll};

#[derive(Clone, Debug, Default)]
pub struct HyperConnector;

pub struct SimIo(TokioIo<TcpStream>);

impl Connection for SimIo {
    fn connected(&self) -> Connected {
        Connected::new()
    }
}
impl hyper::rt::Read for SimIo {
    fn poll_read(mut self: Pin<&mut Self>, cx: &mut Context<'_>, buf: hyper::rt::ReadBufCursor<'_>) -> Poll<io::Result<()>> {
        Pin::new(&mut self.0).poll_read(cx, buf)
    }
}
impl hyper::rt::Write for SimIo {
    fn poll_write(mut self: Pin<&mut Self>, cx: &mut Context<'_>, buf: &[u8]) -> Poll<io::Result<usize>> {
        Pin::new(&mut self.0).poll_write(cx, buf)
    }
    fn poll_flush(mut self: Pin<&mut Self>, cx: &mut Context<'_>) -> Poll<io::Result<()>> {
        Pin::new(&mut self.0).poll_flush(cx)
    }
    fn poll_shutdown(mut self: Pin<&mut Self>, cx: &mut Context<'_>) -> Poll<io::Result<()>> {
        Pin::new(&mut self.0).poll_shutdown(cx)
    }
}

impl tower_service::Service<http::Uri> for HyperConnector {
    type Response = SimIo;
    type Error = io::Error;
    type Future = Pin<Box<dyn Future<Output = io::Result<SimIo>> + Send>>;
    fn poll_ready(&mut self, _cx: &mut Context<'_>) -> Poll<io::Result<()>> {
        Poll::Ready(Ok(()))
    }
    fn call(&mut self, uri: http::Uri) -> Self::Future {
        Box::pin(async move {
            let host = uri.host().unwrap_or("127.0.0.1").to_string();
            let port = uri.port_u16().unwrap_or(80);
            let s = TcpStream::connect((host.as_str(), port)).await?;
            Ok(SimIo(TokioIo::new(s)))
        })
    }
}

//! `penguin-simnet`: a simulated drop-in for the part of `tokio::net` the `penguin` crate uses.
//!
//! One simulated world per thread (thread-local registry of listeners and sockets, a static name
//! table for `lookup_host`). Sockets are in-memory pipes with: bounded buffers (back-pressure),
//! seeded partial read/write sizes, seeded spurious `Pending` (with wake), seeded per-segment
//! virtual latency that is monotone per direction (so TCP order holds), half-close, close,
//! reset, refusal when nobody listens; UDP with per-datagram latency and — in faulty
//! configurations only — loss, duplication and reordering.
//!
//! Every timing decision reads tokio's (paused) clock and every random choice is drawn from the
//! world's PRNG, so an execution is a function of the world's seed and the code alone. Every
//! socket-level event (kind, connection id, length, virtual time) is folded into a digest.

pub mod hyperconn;
pub use hyperconn::HyperConnector;

use std::cell::RefCell;
use std::collections::{BTreeMap, VecDeque};
use std::io;
use std::net::{IpAddr, Ipv4Addr, Ipv6Addr, SocketAddr};
use std::path::{Path, PathBuf};
use std::pin::Pin;
use std::sync::{Arc, Mutex};
use std::task::{Context, Poll, Waker};
use std::time::Duration;
use tokio::io::{AsyncRead, AsyncWrite, ReadBuf};
use tokio::time::{Instant, Sleep};

// ------------------------------------------------------------------ world

#[derive(Clone, Debug)]
pub struct NetCfg {
    /// per-segment latency, drawn uniformly from this range (ms)
    pub latency_ms: (u64, u64),
    /// per mille of reads/writes that are cut to a random shorter length
    pub partial_io: u32,
    /// per mille of read/write polls that return a spurious `Pending` (with immediate wake)
    pub spurious_pending: u32,
    /// socket buffer capacity in bytes per direction
    pub buf_cap: usize,
    /// UDP fault rates per mille (legal for UDP, never applied to TCP)
    pub udp_loss: u32,
    pub udp_dup: u32,
    pub udp_reorder: u32,
    pub keep_log: bool,
}
impl Default for NetCfg {
    fn default() -> Self {
        NetCfg { latency_ms: (0, 0), partial_io: 0, spurious_pending: 0, buf_cap: 256 * 1024, udp_loss: 0, udp_dup: 0, udp_reorder: 0, keep_log: false }
    }
}

#[derive(Clone, Debug)]
pub struct ConnectRec {
    pub t: Duration,
    pub to: SocketAddr,
    pub ok: bool,
    pub conn: u64,
}

pub struct World {
    pub cfg: NetCfg,
    rng: u64,
    tcp: BTreeMap<u16, (IpAddr, Arc<Mutex<ListenerState>>)>,
    unix: BTreeMap<PathBuf, Arc<Mutex<ListenerState>>>,
    udp: BTreeMap<u16, (IpAddr, Arc<Mutex<UdpState>>)>,
    pub dns: BTreeMap<String, Vec<IpAddr>>,
    /// destinations there is no route to: a TCP connect to one of them fails at once with
    /// NetworkUnreachable (not refused: nobody was asked)
    pub unreachable: Vec<IpAddr>,
    next_port: u16,
    next_conn: u64,
    pub t0: Option<Instant>,
    pub digest: u64,
    pub events: u64,
    pub log: Vec<String>,
    pub connects: Vec<ConnectRec>,
    conns: BTreeMap<u64, (P, P)>,
    pub counters: BTreeMap<&'static str, u64>,
    connect_wakers: Vec<Waker>,
    /// (connection, time) of every TCP endpoint that was dropped, in order
    pub drops: Vec<(u64, Duration)>,
    /// number of events per connection
    pub events_by_conn: BTreeMap<u64, u64>,
}
impl Default for World {
    fn default() -> Self {
        World { cfg: NetCfg::default(), rng: 1, tcp: BTreeMap::new(), unix: BTreeMap::new(), udp: BTreeMap::new(), dns: BTreeMap::new(), unreachable: vec![], next_port: 40000, next_conn: 0, t0: None, digest: 0xcbf2_9ce4_8422_2325, events: 0, log: vec![], connects: vec![], conns: BTreeMap::new(), counters: BTreeMap::new(), connect_wakers: vec![], drops: vec![], events_by_conn: BTreeMap::new() }
    }
}
thread_local! {
    static WORLD: RefCell<World> = RefCell::new(World::default());
}
/// Start a fresh world on this thread.
pub fn reset(seed: u64, cfg: NetCfg) {
    WORLD.with(|w| {
        let mut nw = World::default();
        nw.rng = seed ^ 0x51e7_e5ee_d000_0001;
        nw.cfg = cfg;
        *w.borrow_mut() = nw;
    });
}
/// Resolves once more than `seen` connection attempts (successful or refused) have been made in this world.
pub async fn connect_attempts_exceed(seen: usize) {
    std::future::poll_fn(|cx| {
        with(|w| {
            if w.connects.len() > seen {
                Poll::Ready(())
            } else {
                w.connect_wakers.push(cx.waker().clone());
                Poll::Pending
            }
        })
    })
    .await
}
pub fn with<T>(f: impl FnOnce(&mut World) -> T) -> T {
    WORLD.with(|w| f(&mut w.borrow_mut()))
}
impl World {
    fn rand(&mut self) -> u64 {
        self.rng = self.rng.wrapping_add(0x9E37_79B9_7F4A_7C15);
        let mut z = self.rng;
        z = (z ^ (z >> 30)).wrapping_mul(0xBF58_476D_1CE4_E5B9);
        z = (z ^ (z >> 27)).wrapping_mul(0x94D0_49BB_1331_11EB);
        z ^ (z >> 31)
    }
    fn chance(&mut self, per_mille: u32) -> bool {
        per_mille > 0 && self.rand() % 1000 < per_mille as u64
    }
    fn now(&mut self) -> Duration {
        let t0 = *self.t0.get_or_insert_with(Instant::now);
        Instant::now().duration_since(t0)
    }
    fn latency(&mut self) -> Duration {
        let (lo, hi) = self.cfg.latency_ms;
        if hi == 0 {
            return Duration::ZERO;
        }
        Duration::from_millis(lo + self.rand() % (hi - lo + 1))
    }
    fn ev(&mut self, kind: &'static str, conn: u64, len: usize) {
        let t = self.now();
        self.events += 1;
        *self.events_by_conn.entry(conn).or_insert(0) += 1;
        for x in [kind.len() as u64 ^ (kind.as_bytes()[0] as u64) << 8 ^ (kind.as_bytes()[kind.len() - 1] as u64) << 16, conn, len as u64, t.as_micros() as u64] {
            for i in 0..8 {
                self.digest = (self.digest ^ ((x >> (i * 8)) & 0xff)).wrapping_mul(0x1000_0000_01b3);
            }
        }
        *self.counters.entry(kind).or_insert(0) += 1;
        if self.cfg.keep_log {
            self.log.push(format!("[{t:?}] {kind} conn={conn} len={len}"));
        }
    }
    fn alloc_port(&mut self) -> u16 {
        self.next_port += 1;
        self.next_port
    }
    /// Abort a connection: both ends see a reset on their next operation.
    pub fn reset_conn(&mut self, conn: u64) -> bool {
        let Some((a, b)) = self.conns.get(&conn).cloned() else { return false };
        for p in [a, b] {
            let mut p = p.lock().unwrap();
            p.rst = true;
            p.wake_all();
        }
        self.ev("tcp-reset", conn, 0);
        true
    }
    /// The path of a connection dies without a word (partition, or the peer host hangs): from now
    /// on neither end receives anything more - no data, no end-of-stream, no reset, not even what
    /// was already on its way. Writers go on filling their send buffer until it is full.
    pub fn blackhole_conn(&mut self, conn: u64) -> bool {
        let Some((a, b)) = self.conns.get(&conn).cloned() else { return false };
        for p in [a, b] {
            p.lock().unwrap().frozen = true;
        }
        self.ev("tcp-blackhole", conn, 0);
        true
    }
    /// Reset every connection established towards `port`.
    pub fn reset_conns_to(&mut self, port: u16) -> usize {
        let ids: Vec<u64> = self.connects.iter().filter(|c| c.ok && c.to.port() == port).map(|c| c.conn).collect();
        ids.into_iter().filter(|id| self.reset_conn(*id)).count()
    }
    pub fn listening(&self, port: u16) -> bool {
        self.tcp.contains_key(&port)
    }
}

// ------------------------------------------------------------------ addressing

pub trait ToSocketAddrs {
    fn resolve(&self) -> io::Result<Vec<SocketAddr>>;
}
fn resolve_host(h: &str, port: u16) -> io::Result<Vec<SocketAddr>> {
    // like std/tokio: a host in a (host, port) pair is an IP address literal WITHOUT brackets or a
    // name; "[::1]" is neither (getaddrinfo fails on it)
    if let Ok(ip) = h.parse::<IpAddr>() {
        return Ok(vec![SocketAddr::new(ip, port)]);
    }
    if h == "localhost" {
        return Ok(vec![SocketAddr::new(Ipv4Addr::LOCALHOST.into(), port)]);
    }
    with(|w| match w.dns.get(h) {
        Some(ips) => Ok(ips.iter().map(|ip| SocketAddr::new(*ip, port)).collect()),
        None => Err(io::Error::other("simnet: name not found")),
    })
}
impl ToSocketAddrs for SocketAddr {
    fn resolve(&self) -> io::Result<Vec<SocketAddr>> {
        Ok(vec![*self])
    }
}
impl ToSocketAddrs for str {
    fn resolve(&self) -> io::Result<Vec<SocketAddr>> {
        if let Ok(a) = self.parse::<SocketAddr>() {
            return Ok(vec![a]);
        }
        let (h, p) = self.rsplit_once(':').ok_or_else(|| io::Error::new(io::ErrorKind::InvalidInput, "bad address"))?;
        resolve_host(h, p.parse().map_err(|_| io::Error::new(io::ErrorKind::InvalidInput, "bad port"))?)
    }
}
impl ToSocketAddrs for String {
    fn resolve(&self) -> io::Result<Vec<SocketAddr>> {
        self.as_str().resolve()
    }
}
impl ToSocketAddrs for (&str, u16) {
    fn resolve(&self) -> io::Result<Vec<SocketAddr>> {
        resolve_host(self.0, self.1)
    }
}
impl ToSocketAddrs for (String, u16) {
    fn resolve(&self) -> io::Result<Vec<SocketAddr>> {
        resolve_host(&self.0, self.1)
    }
}
impl ToSocketAddrs for (IpAddr, u16) {
    fn resolve(&self) -> io::Result<Vec<SocketAddr>> {
        Ok(vec![SocketAddr::new(self.0, self.1)])
    }
}
impl ToSocketAddrs for (Ipv4Addr, u16) {
    fn resolve(&self) -> io::Result<Vec<SocketAddr>> {
        Ok(vec![SocketAddr::new(self.0.into(), self.1)])
    }
}
impl ToSocketAddrs for (Ipv6Addr, u16) {
    fn resolve(&self) -> io::Result<Vec<SocketAddr>> {
        Ok(vec![SocketAddr::new(self.0.into(), self.1)])
    }
}
impl<T: ToSocketAddrs + ?Sized> ToSocketAddrs for &T {
    fn resolve(&self) -> io::Result<Vec<SocketAddr>> {
        (**self).resolve()
    }
}
pub async fn lookup_host<T: ToSocketAddrs>(host: T) -> io::Result<impl Iterator<Item = SocketAddr>> {
    Ok(host.resolve()?.into_iter())
}

// ------------------------------------------------------------------ pipes

struct Pipe {
    segs: VecDeque<(Instant, Vec<u8>)>,
    buffered: usize,
    cap: usize,
    /// the writer shut down or went away
    fin: bool,
    rst: bool,
    /// nothing is delivered any more (see `World::blackhole_conn`)
    frozen: bool,
    reader_gone: bool,
    rwaker: Option<Waker>,
    wwaker: Option<Waker>,
    last_ready: Option<Instant>,
}
impl Pipe {
    fn new(cap: usize) -> P {
        Arc::new(Mutex::new(Pipe { segs: VecDeque::new(), buffered: 0, cap, fin: false, rst: false, frozen: false, reader_gone: false, rwaker: None, wwaker: None, last_ready: None }))
    }
    fn wake_all(&mut self) {
        if let Some(w) = self.rwaker.take() {
            w.wake();
        }
        if let Some(w) = self.wwaker.take() {
            w.wake();
        }
    }
}
type P = Arc<Mutex<Pipe>>;

pub struct TcpStream {
    rx: P,
    tx: P,
    local: SocketAddr,
    peer: SocketAddr,
    conn: u64,
    sleep: Option<Pin<Box<Sleep>>>,
}
impl std::fmt::Debug for TcpStream {
    fn fmt(&self, f: &mut std::fmt::Formatter<'_>) -> std::fmt::Result {
        write!(f, "SimTcpStream(#{} {} -> {})", self.conn, self.local, self.peer)
    }
}
impl TcpStream {
    fn pair(a: SocketAddr, b: SocketAddr) -> (Self, Self) {
        let (cap, conn) = with(|w| {
            w.next_conn += 1;
            (w.cfg.buf_cap, w.next_conn)
        });
        let (p1, p2) = (Pipe::new(cap), Pipe::new(cap));
        with(|w| w.conns.insert(conn, (p1.clone(), p2.clone())));
        (TcpStream { rx: p1.clone(), tx: p2.clone(), local: a, peer: b, conn, sleep: None }, TcpStream { rx: p2, tx: p1, local: b, peer: a, conn, sleep: None })
    }
    pub async fn connect<A: ToSocketAddrs>(a: A) -> io::Result<Self> {
        let addrs = a.resolve()?;
        let mut last = io::Error::new(io::ErrorKind::InvalidInput, "no address");
        for addr in addrs {
            match connect_to(addr, None).await {
                Ok(s) => return Ok(s),
                Err(e) => last = e,
            }
        }
        Err(last)
    }
    pub fn peer_addr(&self) -> io::Result<SocketAddr> {
        Ok(self.peer)
    }
    pub fn local_addr(&self) -> io::Result<SocketAddr> {
        Ok(self.local)
    }
    pub fn set_nodelay(&self, _n: bool) -> io::Result<()> {
        Ok(())
    }
    pub fn conn_id(&self) -> u64 {
        self.conn
    }
}
async fn connect_to(addr: SocketAddr, from: Option<SocketAddr>) -> io::Result<TcpStream> {
    // A connection attempt takes no simulated time on a network without latency. A program that
    // retries without any pause would then spin at one simulated instant for ever and the run would
    // never end: after a thousand attempts at the same instant each further one costs a millisecond,
    // so that time moves on and whoever judges the retry schedule gets to see it.
    let storm = with(|w| {
        let t = w.now();
        w.connects.iter().rev().take(1000).filter(|c| c.t == t).count() >= 1000
    });
    if storm {
        tokio::time::sleep(Duration::from_millis(1)).await;
    }
    // the SYN / SYN-ACK exchange takes one round trip
    let rtt = with(|w| w.latency() + w.latency());
    if !rtt.is_zero() {
        tokio::time::sleep(rtt).await;
    }
    if with(|w| w.unreachable.contains(&addr.ip())) {
        with(|w| {
            let t = w.now();
            w.connects.push(ConnectRec { t, to: addr, ok: false, conn: 0 });
        });
        return Err(io::ErrorKind::NetworkUnreachable.into());
    }
    let l = with(|w| w.tcp.get(&addr.port()).map(|(ip, l)| (*ip, l.clone())));
    let ok = l.as_ref().is_some_and(|(lip, _)| lip.is_unspecified() || *lip == addr.ip());
    if !ok {
        with(|w| {
            let t = w.now();
            w.connects.push(ConnectRec { t, to: addr, ok: false, conn: 0 });
            w.ev("tcp-refused", 0, addr.port() as usize);
            for wk in w.connect_wakers.drain(..) {
                wk.wake();
            }
        });
        return Err(io::ErrorKind::ConnectionRefused.into());
    }
    let (_, l) = l.unwrap();
    let local = match from {
        Some(f) if f.port() != 0 => f,
        Some(f) if !f.ip().is_unspecified() => SocketAddr::new(f.ip(), with(|w| w.alloc_port())),
        _ => SocketAddr::new(addr.ip(), with(|w| w.alloc_port())),
    };
    let (c, s) = TcpStream::pair(local, addr);
    with(|w| {
        let t = w.now();
        w.connects.push(ConnectRec { t, to: addr, ok: true, conn: c.conn });
        w.ev("tcp-connect", c.conn, addr.port() as usize);
        for wk in w.connect_wakers.drain(..) {
            wk.wake();
        }
    });
    let mut ls = l.lock().unwrap();
    ls.pending.push_back((s, local));
    if let Some(w) = ls.waker.take() {
        w.wake();
    }
    Ok(c)
}
impl Drop for TcpStream {
    fn drop(&mut self) {
        {
            let mut t = self.tx.lock().unwrap();
            t.fin = true;
            if let Some(w) = t.rwaker.take() {
                w.wake();
            }
        }
        {
            let mut r = self.rx.lock().unwrap();
            r.reader_gone = true;
            if let Some(w) = r.wwaker.take() {
                w.wake();
            }
        }
        let conn = self.conn;
        let _ = WORLD.try_with(|w| {
            if let Ok(mut w) = w.try_borrow_mut() {
                w.ev("tcp-drop", conn, 0);
                let t = w.now();
                w.drops.push((conn, t));
            }
        });
    }
}
impl AsyncRead for TcpStream {
    fn poll_read(self: Pin<&mut Self>, cx: &mut Context<'_>, b: &mut ReadBuf<'_>) -> Poll<io::Result<()>> {
        let this = self.get_mut();
        if with(|w| w.chance(w.cfg.spurious_pending)) {
            cx.waker().wake_by_ref();
            return Poll::Pending;
        }
        let mut p = this.rx.lock().unwrap();
        if p.frozen {
            p.rwaker = Some(cx.waker().clone());
            return Poll::Pending;
        }
        if p.rst {
            return Poll::Ready(Err(io::ErrorKind::ConnectionReset.into()));
        }
        let now = Instant::now();
        if let Some((ready_at, _)) = p.segs.front() {
            if *ready_at > now {
                // not arrived yet: wake up when it does
                let at = *ready_at;
                p.rwaker = Some(cx.waker().clone());
                drop(p);
                let mut s = Box::pin(tokio::time::sleep_until(at));
                if s.as_mut().poll(cx).is_pending() {
                    this.sleep = Some(s);
                    return Poll::Pending;
                }
                p = this.rx.lock().unwrap();
            }
            let mut n = b.remaining().min(p.segs.front().map(|s| s.1.len()).unwrap_or(0));
            if n > 1 && with(|w| w.chance(w.cfg.partial_io)) {
                n = 1 + (with(|w| w.rand()) as usize) % (n - 1);
            }
            let seg = p.segs.front_mut().unwrap();
            b.put_slice(&seg.1[..n]);
            seg.1.drain(..n);
            if seg.1.is_empty() {
                p.segs.pop_front();
            }
            p.buffered -= n;
            if let Some(w) = p.wwaker.take() {
                w.wake();
            }
            drop(p);
            let conn = this.conn;
            with(|w| w.ev("tcp-read", conn, n));
            return Poll::Ready(Ok(()));
        }
        if p.fin {
            drop(p);
            let conn = this.conn;
            with(|w| w.ev("tcp-eof", conn, 0));
            return Poll::Ready(Ok(()));
        }
        p.rwaker = Some(cx.waker().clone());
        Poll::Pending
    }
}
impl AsyncWrite for TcpStream {
    fn poll_write(self: Pin<&mut Self>, cx: &mut Context<'_>, b: &[u8]) -> Poll<io::Result<usize>> {
        let this = self.get_mut();
        if with(|w| w.chance(w.cfg.spurious_pending)) {
            cx.waker().wake_by_ref();
            return Poll::Pending;
        }
        let lat = with(|w| w.latency());
        let mut p = this.tx.lock().unwrap();
        if p.rst {
            return Poll::Ready(Err(io::ErrorKind::ConnectionReset.into()));
        }
        if p.fin {
            return Poll::Ready(Err(io::ErrorKind::BrokenPipe.into()));
        }
        if p.reader_gone && !p.frozen {
            return Poll::Ready(Err(io::ErrorKind::ConnectionReset.into()));
        }
        if b.is_empty() {
            return Poll::Ready(Ok(0));
        }
        if p.buffered >= p.cap {
            p.wwaker = Some(cx.waker().clone());
            return Poll::Pending;
        }
        let mut n = b.len().min(p.cap - p.buffered);
        if n > 1 && with(|w| w.chance(w.cfg.partial_io)) {
            n = 1 + (with(|w| w.rand()) as usize) % (n - 1);
        }
        let mut ready_at = Instant::now() + lat;
        if let Some(l) = p.last_ready {
            if ready_at < l {
                ready_at = l;
            }
        }
        p.last_ready = Some(ready_at);
        p.segs.push_back((ready_at, b[..n].to_vec()));
        p.buffered += n;
        if let Some(w) = p.rwaker.take() {
            w.wake();
        }
        drop(p);
        let conn = this.conn;
        with(|w| w.ev("tcp-write", conn, n));
        Poll::Ready(Ok(n))
    }
    fn poll_flush(self: Pin<&mut Self>, _cx: &mut Context<'_>) -> Poll<io::Result<()>> {
        Poll::Ready(Ok(()))
    }
    fn poll_shutdown(self: Pin<&mut Self>, _cx: &mut Context<'_>) -> Poll<io::Result<()>> {
        let mut p = self.tx.lock().unwrap();
        if !p.fin {
            p.fin = true;
            if let Some(w) = p.rwaker.take() {
                w.wake();
            }
            drop(p);
            let conn = self.conn;
            with(|w| w.ev("tcp-shutdown", conn, 0));
        }
        Poll::Ready(Ok(()))
    }
}

// ------------------------------------------------------------------ listeners

#[derive(Default)]
pub struct ListenerState {
    pending: VecDeque<(TcpStream, SocketAddr)>,
    waker: Option<Waker>,
}
pub struct TcpListener {
    addr: SocketAddr,
    st: Arc<Mutex<ListenerState>>,
}
impl std::fmt::Debug for TcpListener {
    fn fmt(&self, f: &mut std::fmt::Formatter<'_>) -> std::fmt::Result {
        write!(f, "SimTcpListener({})", self.addr)
    }
}
impl TcpListener {
    pub async fn bind<A: ToSocketAddrs>(a: A) -> io::Result<Self> {
        let mut addr = a.resolve()?.into_iter().next().ok_or_else(|| io::Error::from(io::ErrorKind::InvalidInput))?;
        if addr.port() == 0 {
            addr.set_port(with(|w| w.alloc_port()));
        }
        let st: Arc<Mutex<ListenerState>> = Default::default();
        with(|w| {
            if w.tcp.contains_key(&addr.port()) {
                return Err(io::Error::from(io::ErrorKind::AddrInUse));
            }
            w.tcp.insert(addr.port(), (addr.ip(), st.clone()));
            w.ev("tcp-listen", 0, addr.port() as usize);
            Ok(())
        })?;
        Ok(Self { addr, st })
    }
    pub async fn accept(&self) -> io::Result<(TcpStream, SocketAddr)> {
        std::future::poll_fn(|cx| self.poll_accept(cx)).await
    }
    pub fn poll_accept(&self, cx: &mut Context<'_>) -> Poll<io::Result<(TcpStream, SocketAddr)>> {
        let mut s = self.st.lock().unwrap();
        if let Some(x) = s.pending.pop_front() {
            drop(s);
            with(|w| w.ev("tcp-accept", x.0.conn, 0));
            return Poll::Ready(Ok(x));
        }
        s.waker = Some(cx.waker().clone());
        Poll::Pending
    }
    pub fn local_addr(&self) -> io::Result<SocketAddr> {
        Ok(self.addr)
    }
}
impl Drop for TcpListener {
    fn drop(&mut self) {
        let p = self.addr.port();
        let _ = WORLD.try_with(|w| {
            if let Ok(mut w) = w.try_borrow_mut() {
                w.tcp.remove(&p);
                w.ev("tcp-unlisten", 0, p as usize);
            }
        });
        // connections that were never accepted are refused after all
        let pending: Vec<_> = self.st.lock().unwrap().pending.drain(..).collect();
        drop(pending);
    }
}
impl async_acceptor::AsyncAcceptable for TcpListener {
    type Stream = TcpStream;
    fn poll_accept(&self, cx: &mut Context<'_>) -> Poll<io::Result<Self::Stream>> {
        TcpListener::poll_accept(self, cx).map(|r| r.map(|x| x.0))
    }
    fn poll_accept_with_sockaddr(&self, cx: &mut Context<'_>) -> Poll<io::Result<(Self::Stream, SocketAddr)>> {
        TcpListener::poll_accept(self, cx)
    }
}

#[derive(Debug)]
pub struct TcpSocket {
    local: Mutex<Option<SocketAddr>>,
}
impl TcpSocket {
    pub fn new_v4() -> io::Result<Self> {
        Ok(Self { local: Mutex::new(None) })
    }
    pub fn new_v6() -> io::Result<Self> {
        Ok(Self { local: Mutex::new(None) })
    }
    pub fn bind(&self, a: SocketAddr) -> io::Result<()> {
        let mut a = a;
        if a.port() == 0 {
            a.set_port(with(|w| w.alloc_port()));
        }
        *self.local.lock().unwrap() = Some(a);
        Ok(())
    }
    pub fn local_addr(&self) -> io::Result<SocketAddr> {
        self.local.lock().unwrap().ok_or_else(|| io::ErrorKind::InvalidInput.into())
    }
    pub async fn connect(self, a: SocketAddr) -> io::Result<TcpStream> {
        let from = *self.local.lock().unwrap();
        connect_to(a, from.map(|f| if f.ip().is_unspecified() { SocketAddr::new(a.ip(), f.port()) } else { f })).await
    }
}

// ------------------------------------------------------------------ unix sockets (path-keyed pipes)

#[derive(Debug)]
pub struct UnixStream(TcpStream);
impl UnixStream {
    pub async fn connect<Q: AsRef<Path>>(p: Q) -> io::Result<Self> {
        let l = with(|w| w.unix.get(p.as_ref()).cloned());
        let Some(l) = l else { return Err(io::ErrorKind::ConnectionRefused.into()) };
        let dummy = SocketAddr::new(Ipv4Addr::UNSPECIFIED.into(), 0);
        let (c, s) = TcpStream::pair(dummy, dummy);
        with(|w| w.ev("unix-connect", c.conn, 0));
        let mut ls = l.lock().unwrap();
        ls.pending.push_back((s, dummy));
        if let Some(w) = ls.waker.take() {
            w.wake();
        }
        Ok(UnixStream(c))
    }
}
impl AsyncRead for UnixStream {
    fn poll_read(mut self: Pin<&mut Self>, cx: &mut Context<'_>, b: &mut ReadBuf<'_>) -> Poll<io::Result<()>> {
        Pin::new(&mut self.0).poll_read(cx, b)
    }
}
impl AsyncWrite for UnixStream {
    fn poll_write(mut self: Pin<&mut Self>, cx: &mut Context<'_>, b: &[u8]) -> Poll<io::Result<usize>> {
        Pin::new(&mut self.0).poll_write(cx, b)
    }
    fn poll_flush(mut self: Pin<&mut Self>, cx: &mut Context<'_>) -> Poll<io::Result<()>> {
        Pin::new(&mut self.0).poll_flush(cx)
    }
    fn poll_shutdown(mut self: Pin<&mut Self>, cx: &mut Context<'_>) -> Poll<io::Result<()>> {
        Pin::new(&mut self.0).poll_shutdown(cx)
    }
}
pub struct UnixListener {
    path: PathBuf,
    st: Arc<Mutex<ListenerState>>,
}
impl std::fmt::Debug for UnixListener {
    fn fmt(&self, f: &mut std::fmt::Formatter<'_>) -> std::fmt::Result {
        write!(f, "SimUnixListener({:?})", self.path)
    }
}
impl UnixListener {
    pub fn bind<Q: AsRef<Path>>(p: Q) -> io::Result<Self> {
        let path = p.as_ref().to_path_buf();
        let st: Arc<Mutex<ListenerState>> = Default::default();
        with(|w| {
            if w.unix.contains_key(&path) {
                return Err(io::Error::from(io::ErrorKind::AddrInUse));
            }
            w.unix.insert(path.clone(), st.clone());
            Ok(())
        })?;
        Ok(Self { path, st })
    }
    pub fn local_addr(&self) -> io::Result<PathBuf> {
        Ok(self.path.clone())
    }
}
impl Drop for UnixListener {
    fn drop(&mut self) {
        let p = self.path.clone();
        let _ = WORLD.try_with(|w| {
            if let Ok(mut w) = w.try_borrow_mut() {
                w.unix.remove(&p);
            }
        });
    }
}
impl async_acceptor::AsyncAcceptable for UnixListener {
    type Stream = UnixStream;
    fn poll_accept(&self, cx: &mut Context<'_>) -> Poll<io::Result<Self::Stream>> {
        let mut s = self.st.lock().unwrap();
        if let Some(x) = s.pending.pop_front() {
            return Poll::Ready(Ok(UnixStream(x.0)));
        }
        s.waker = Some(cx.waker().clone());
        Poll::Pending
    }
}

// ------------------------------------------------------------------ UDP

#[derive(Default)]
pub struct UdpState {
    q: VecDeque<(Instant, Vec<u8>, SocketAddr)>,
    waker: Option<Waker>,
}
pub struct UdpSocket {
    addr: SocketAddr,
    st: Arc<Mutex<UdpState>>,
    sleep: Mutex<Option<Pin<Box<Sleep>>>>,
}
impl std::fmt::Debug for UdpSocket {
    fn fmt(&self, f: &mut std::fmt::Formatter<'_>) -> std::fmt::Result {
        write!(f, "SimUdpSocket({})", self.addr)
    }
}
impl UdpSocket {
    pub async fn bind<A: ToSocketAddrs>(a: A) -> io::Result<Self> {
        let mut addr = a.resolve()?.into_iter().next().ok_or_else(|| io::Error::from(io::ErrorKind::InvalidInput))?;
        if addr.port() == 0 {
            addr.set_port(with(|w| w.alloc_port()));
        }
        let st: Arc<Mutex<UdpState>> = Default::default();
        with(|w| {
            if w.udp.contains_key(&addr.port()) {
                return Err(io::Error::from(io::ErrorKind::AddrInUse));
            }
            w.udp.insert(addr.port(), (addr.ip(), st.clone()));
            w.ev("udp-bind", 0, addr.port() as usize);
            Ok(())
        })?;
        Ok(Self { addr, st, sleep: Mutex::new(None) })
    }
    pub fn local_addr(&self) -> io::Result<SocketAddr> {
        Ok(self.addr)
    }
    pub async fn send_to<A: ToSocketAddrs>(&self, b: &[u8], a: A) -> io::Result<usize> {
        let to = a.resolve()?.into_iter().next().ok_or_else(|| io::Error::from(io::ErrorKind::InvalidInput))?;
        // an AF_INET socket cannot send to an AF_INET6 address and vice versa (EAFNOSUPPORT)
        if to.is_ipv4() != self.addr.is_ipv4() {
            return Err(io::Error::other("Address family not supported by protocol (os error 97)"));
        }
        let dst = with(|w| w.udp.get(&to.port()).map(|(ip, st)| (*ip, st.clone())));
        // source address as the receiver sees it: our bound ip; a wildcard-bound socket gets the
        // address the route to the destination prefers - on the one simulated host that is the
        // primary loopback address (Linux: `local 127.0.0.0/8 dev lo src 127.0.0.1`), whatever
        // local address the peer had sent to
        let primary: IpAddr = if to.is_ipv4() { IpAddr::from([127, 0, 0, 1]) } else { IpAddr::V6(std::net::Ipv6Addr::LOCALHOST) };
        let src = if self.addr.ip().is_unspecified() { SocketAddr::new(if to.ip().is_loopback() { primary } else { to.ip() }, self.addr.port()) } else { self.addr };
        let (lost, dup, reorder, lat, lat2) = with(|w| {
            let c = w.cfg.clone();
            (w.chance(c.udp_loss), w.chance(c.udp_dup), w.chance(c.udp_reorder), w.latency(), w.latency())
        });
        with(|w| w.ev(if lost { "udp-lost" } else { "udp-send" }, to.port() as u64, b.len()));
        if let (Some((_ip, st)), false) = (dst, lost) {
            let mut s = st.lock().unwrap();
            let at = Instant::now() + lat;
            if reorder && !s.q.is_empty() {
                let i = s.q.len() - 1;
                s.q.insert(i, (at, b.to_vec(), src));
                with(|w| w.ev("udp-reordered", to.port() as u64, b.len()));
            } else {
                s.q.push_back((at, b.to_vec(), src));
            }
            if dup {
                s.q.push_back((Instant::now() + lat.max(lat2), b.to_vec(), src));
                with(|w| w.ev("udp-duplicated", to.port() as u64, b.len()));
            }
            if let Some(w) = s.waker.take() {
                w.wake();
            }
        }
        Ok(b.len())
    }
    pub async fn recv_from(&self, b: &mut [u8]) -> io::Result<(usize, SocketAddr)> {
        std::future::poll_fn(|cx| {
            let mut s = self.st.lock().unwrap();
            // the earliest-arriving datagram among the queued ones
            let now = Instant::now();
            if let Some(i) = s.q.iter().position(|(at, _, _)| *at <= now) {
                let (_, d, from) = s.q.remove(i).unwrap();
                let n = d.len().min(b.len());
                b[..n].copy_from_slice(&d[..n]);
                drop(s);
                let port = self.addr.port();
                with(|w| w.ev("udp-recv", port as u64, n));
                return Poll::Ready(Ok((n, from)));
            }
            s.waker = Some(cx.waker().clone());
            if let Some(at) = s.q.iter().map(|x| x.0).min() {
                drop(s);
                let mut sl = Box::pin(tokio::time::sleep_until(at));
                if sl.as_mut().poll(cx).is_ready() {
                    cx.waker().wake_by_ref();
                }
                *self.sleep.lock().unwrap() = Some(sl);
            }
            Poll::Pending
        })
        .await
    }
}
impl Drop for UdpSocket {
    fn drop(&mut self) {
        let p = self.addr.port();
        let _ = WORLD.try_with(|w| {
            if let Ok(mut w) = w.try_borrow_mut() {
                w.udp.remove(&p);
            }
        });
    }
}

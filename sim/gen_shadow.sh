#!/bin/bash
exec python3 /verif/sim/gen_shadow.py

#!/bin/bash
exec python3 "$(dirname "$0")/gen_shadow.py"

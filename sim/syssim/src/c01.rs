//! C01: end-to-end transparency. The real client (`client_main_inner` with TCP-port, Unix-socket,
//! SOCKS, HTTP-proxy and UDP remotes) and the real server (`run_listener`: hyper upgrade,
//! tungstenite, forwarders) over the simulated network, between simulated local clients (written
//! against the RFCs, independent of `penguin-socks`) and simulated targets.

use crate::common::*;
use penguin_simnet::{TcpListener, TcpStream, UdpSocket, UnixStream};
use rusty_penguin_lib::server::{State, run_listener};
use serde::{Deserialize, Serialize};
use simcore::{Outcome, Sched};
use std::cell::RefCell;
use std::net::SocketAddr;
use std::rc::Rc;
use std::time::Duration;
use tokio::io::{AsyncRead, AsyncReadExt, AsyncWrite, AsyncWriteExt};

#[derive(Serialize, Deserialize, Clone, Debug)]
pub struct TcpConn {
    /// 0 TCP-port remote, 1 Unix-socket remote, 2 SOCKS4, 3 SOCKS4a, 4 SOCKS5/IPv4, 5 SOCKS5/domain, 6 SOCKS5/IPv6, 7 HTTP CONNECT (host name), 8 HTTP CONNECT (IPv6 literal), 9 SOCKS5/domain resolving to [::1, 127.0.0.1] with the service on 127.0.0.1 only
    pub entry: u8,
    pub start_ms: u64,
    /// write chunk sizes local client -> target / target -> local client
    pub up: Vec<usize>,
    pub down: Vec<usize>,
    pub up_gap_ms: u64,
    pub down_gap_ms: u64,
    /// 0 = send, half-close, read to EOF; 1 = send, read exactly what is expected, close; 2 = read to EOF first, then send, half-close;
    /// 3 = send, half-close, read `early_k` bytes of the answer, close; 4 = eager: entry-point messages, upload and half-close in one go, then read the replies and the answer to EOF
    pub client_end: u8,
    /// 0 = full duplex, close after the client's EOF; 1 = send, half-close first, keep reading to EOF;
    /// 2 = close early after `early_k` bytes; 3 = refuse (nobody listens); 4 = read everything, never answer, never close;
    /// 5 = answer, half-close, never read, close later; 6 = read the request to its end, then stream a long answer
    pub target_mode: u8,
    pub early_k: usize,
    /// the target starts reading only after this delay (back-pressure through the whole tunnel)
    pub target_read_delay_ms: u64,
    /// entries 6 and 8 with target_mode 3 only: the destination named is one there is no route to
    /// (the server's connect fails with NetworkUnreachable instead of being refused)
    #[serde(default)]
    pub unreachable: bool,
}
/// an IPv6 destination without a route (fd00::dead)
pub const UNREACHABLE_V6: std::net::Ipv6Addr = std::net::Ipv6Addr::new(0xfd00, 0, 0, 0, 0, 0, 0, 0xdead);
#[derive(Serialize, Deserialize, Clone, Debug)]
pub struct UdpClient {
    pub via_socks: bool,
    /// which UDP remote / target (0..n_udp_targets)
    pub target: usize,
    pub start_ms: u64,
    pub sizes: Vec<usize>,
    pub gap_ms: u64,
    /// SOCKS5 associations only: target of exchange k is `(target + hops[k]) % n_udp_targets`, so one
    /// association (one flow) talks to several targets
    #[serde(default)]
    pub hops: Vec<usize>,
    /// SOCKS5 associations only: before exchange k (k >= 1) the client's socket also emits a
    /// datagram the relay cannot parse (1 = one byte, 2 = unknown address type, 3 = truncated
    /// address, 4 = FRAG != 0); RFC 1928: the relay drops such datagrams silently
    #[serde(default)]
    pub junk: Vec<u8>,
    /// SOCKS5 associations only: exchange k goes to the IPv6 twin of its target ([::1], port 9200 + t)
    #[serde(default)]
    pub v6: Vec<bool>,
    /// SOCKS5 associations only: exchange k and k+1 (k even) are sent back to back, before either
    /// reply is awaited - a reply then arrives after a later datagram of the association was forwarded
    #[serde(default)]
    pub pairs: bool,
    /// UDP remotes bound to the wildcard address only: this client reaches the remote through the
    /// host's secondary local address (127.0.0.2) instead of the primary one
    #[serde(default)]
    pub alt_local: bool,
    /// UDP remotes only: every request of this client makes the target send this many filler
    /// datagrams back at once (more than the server's reply queue of 64 holds: some may be lost,
    /// as UDP allows) and the real reply three seconds later, which must arrive
    #[serde(default)]
    pub burst: usize,
    /// the target answers this client's *last* request and then goes on sending, unasked, this
    /// many more datagrams three seconds apart while the client only listens (longer than the
    /// 10 s after which an idle flow is pruned): a flow that carries replies is not idle
    #[serde(default)]
    pub stream_n: usize,
}
#[derive(Serialize, Deserialize, Clone, Debug)]
pub struct C01Plan {
    pub net: NetPlan,
    pub tcp: Vec<TcpConn>,
    pub udp: Vec<UdpClient>,
    pub n_udp_targets: usize,
    /// extra fixed-target TCP remotes nobody ever connects to (their listeners just sit there)
    #[serde(default)]
    pub idle_remotes: usize,
    /// the client's keepalive (interval, timeout) in ms, timed on the simulated clock (guarded
    /// hook); only drawn for networks without latency, where a Ping cannot be held up behind
    /// data in transit for longer than the timeout
    #[serde(default)]
    pub keepalive_ms: [u64; 2],
    /// the UDP remotes are given without a local host (`7100:127.0.0.1:9100/udp`, the form of the
    /// README's example): they bind the wildcard address
    #[serde(default)]
    pub udp_wildcard: bool,
}

#[derive(Default, Debug, Clone)]
struct ConnRes {
    client_done: Option<String>,
    target_done: Option<String>,
    client_rx: usize,
    client_rx_ok: bool,
    client_eof: bool,
    client_err: Option<String>,
    target_rx: usize,
    target_rx_ok: bool,
    target_eof: bool,
    target_accepted: bool,
    handshake: Option<String>,
    client_eof_before_sending: bool,
}
#[derive(Default, Debug, Clone)]
struct UdpRes {
    streamed: usize,
    fillers: usize,
    /// pairs of datagrams sent back to back on a SOCKS5 association
    paired: usize,
    sent: usize,
    replies_ok: usize,
    lost: usize,
    problems: Vec<String>,
    done: bool,
    junk_sent: usize,
}

const SERVER_PORT: u16 = 8080;
const SOCKS_PORT: u16 = 7900;
const HTTP_PORT: u16 = 7901;

fn total(v: &[usize]) -> usize {
    v.iter().sum()
}

async fn send_pattern<W: AsyncWrite + Unpin>(w: &mut W, tag: usize, dir: usize, chunks: &[usize], gap_ms: u64) -> Result<usize, String> {
    let mut off = 0u64;
    for n in chunks {
        let data: Vec<u8> = (0..*n as u64).map(|i| pbyte(tag, dir, off + i)).collect();
        w.write_all(&data).await.map_err(|e| format!("write failed after {off} bytes: {e}"))?;
        off += *n as u64;
        if gap_ms > 0 {
            tokio::time::sleep(ms(gap_ms)).await;
        }
    }
    Ok(off as usize)
}
/// read up to `limit` bytes (usize::MAX = to EOF), checking the pattern; returns (bytes, pattern ok, eof seen, error)
async fn recv_pattern<R: AsyncRead + Unpin>(r: &mut R, tag: usize, dir: usize, limit: usize) -> (usize, bool, bool, Option<String>) {
    let mut buf = vec![0u8; 4099];
    let (mut off, mut ok) = (0usize, true);
    while off < limit {
        let want = buf.len().min(limit - off);
        match r.read(&mut buf[..want]).await {
            Ok(0) => return (off, ok, true, None),
            Ok(n) => {
                for (i, b) in buf[..n].iter().enumerate() {
                    if *b != pbyte(tag, dir, (off + i) as u64) {
                        ok = false;
                    }
                }
                off += n;
            }
            Err(e) => return (off, ok, false, Some(e.to_string())),
        }
    }
    (off, ok, false, None)
}
async fn read_until_crlfcrlf<R: AsyncRead + Unpin>(r: &mut R) -> Result<Vec<u8>, String> {
    let mut got = vec![];
    let mut b = [0u8; 1];
    while !got.ends_with(b"\r\n\r\n") {
        match r.read(&mut b).await {
            Ok(0) => return Err(format!("EOF inside the HTTP response head after {} bytes", got.len())),
            Ok(_) => got.push(b[0]),
            Err(e) => return Err(e.to_string()),
        }
        if got.len() > 8192 {
            return Err("HTTP response head too long".into());
        }
    }
    Ok(got)
}

/// the messages a local client sends to its entry point, in order (written from RFC 1928 /
/// SOCKS4(a) / RFC 7231 CONNECT); each is answered by one reply
fn entry_messages(entry: u8, port: u16, unreachable: bool) -> Vec<Vec<u8>> {
    match entry {
        2 | 3 => {
            let mut req = vec![4u8, 1];
            req.extend(port.to_be_bytes());
            if entry == 2 {
                req.extend([127, 0, 0, 1]);
                req.extend(b"user\0");
            } else {
                req.extend([0, 0, 0, 7]);
                req.extend(b"\0");
                req.extend(b"target.sim\0");
            }
            vec![req]
        }
        4..=6 | 9 => {
            let mut req = vec![5u8, 1, 0];
            match entry {
                4 => {
                    req.push(1);
                    req.extend([127, 0, 0, 1]);
                }
                5 => {
                    req.push(3);
                    req.push(10);
                    req.extend(b"target.sim");
                }
                9 => {
                    // a name with two addresses; the service listens on the second one only
                    req.push(3);
                    req.push(8);
                    req.extend(b"dual.sim");
                }
                _ => {
                    req.push(4);
                    req.extend(if unreachable { UNREACHABLE_V6.octets() } else { std::net::Ipv6Addr::LOCALHOST.octets() });
                }
            }
            req.extend(port.to_be_bytes());
            vec![vec![5, 1, 0], req]
        }
        7 | 8 => {
            let host = if entry == 8 && unreachable { "[fd00::dead]" } else if entry == 8 { "[::1]" } else { "target.sim" };
            vec![format!("CONNECT {host}:{port} HTTP/1.1\r\nHost: {host}:{port}\r\n\r\n").into_bytes()]
        }
        _ => vec![],
    }
}
/// read the entry point's reply to message `k` of `entry_messages`
async fn entry_reply<S: AsyncRead + Unpin>(s: &mut S, entry: u8, k: usize) -> Result<(), String> {
    let e = |x: std::io::Error| x.to_string();
    match entry {
        2 | 3 => {
            let mut rep = [0u8; 8];
            s.read_exact(&mut rep).await.map_err(|x| format!("SOCKS4 reply: {x}"))?;
            if rep[0] != 0 || rep[1] != 90 {
                return Err(format!("SOCKS4 reply {rep:?} is not `request granted`"));
            }
            Ok(())
        }
        4..=6 | 9 if k == 0 => {
            let mut m = [0u8; 2];
            s.read_exact(&mut m).await.map_err(|x| format!("SOCKS5 method reply: {x}"))?;
            if m != [5, 0] {
                return Err(format!("SOCKS5 method selection {m:?}"));
            }
            Ok(())
        }
        4..=6 | 9 => {
            let mut h = [0u8; 4];
            s.read_exact(&mut h).await.map_err(|x| format!("SOCKS5 reply: {x}"))?;
            if h[0] != 5 || h[2] != 0 {
                return Err(format!("malformed SOCKS5 reply head {h:?}"));
            }
            let alen = match h[3] {
                1 => 4,
                4 => 16,
                3 => {
                    let mut l = [0u8; 1];
                    s.read_exact(&mut l).await.map_err(e)?;
                    l[0] as usize
                }
                x => return Err(format!("SOCKS5 reply with address type {x}")),
            };
            let mut rest = vec![0u8; alen + 2];
            s.read_exact(&mut rest).await.map_err(|x| format!("SOCKS5 reply address: {x}"))?;
            if h[1] != 0 {
                return Err(format!("SOCKS5 reply code {}", h[1]));
            }
            Ok(())
        }
        7 | 8 => {
            let head = read_until_crlfcrlf(s).await?;
            let line = String::from_utf8_lossy(&head);
            if !line.starts_with("HTTP/1.1 200") {
                return Err(format!("CONNECT answered {:?}", line.lines().next().unwrap_or("")));
            }
            Ok(())
        }
        _ => Ok(()),
    }
}
/// entry-point handshake of a local client: one message, one reply, in turn
async fn entry_handshake<S: AsyncRead + AsyncWrite + Unpin>(s: &mut S, entry: u8, port: u16, unreachable: bool) -> Result<(), String> {
    for (k, m) in entry_messages(entry, port, unreachable).into_iter().enumerate() {
        s.write_all(&m).await.map_err(|x| x.to_string())?;
        entry_reply(s, entry, k).await?;
    }
    Ok(())
}

async fn local_client<S: AsyncRead + AsyncWrite + Unpin>(mut s: S, i: usize, c: TcpConn, res: Rc<RefCell<Vec<ConnRes>>>) {
    let port = 10_000 + i as u16;
    if c.client_end == 4 {
        // an eager client: the entry-point messages, the whole upload and the half-close leave at
        // once, before any reply has been read (`printf 'CONNECT ...' | nc -N`); then the replies
        // and the answer to its end
        let msgs = entry_messages(c.entry, port, c.unreachable && c.target_mode == 3);
        let mut all: Vec<u8> = msgs.concat();
        let mut off = 0u64;
        for n in &c.up {
            all.extend((0..*n as u64).map(|j| pbyte(i, 0, off + j)));
            off += *n as u64;
        }
        // (sending and receiving go on side by side, as in `nc`: a client that reads nothing until
        // it has written everything dead-locks against a target that answers first, tunnel or not)
        let (mut rd, mut wr) = tokio::io::split(s);
        let sender = async {
            let r = wr.write_all(&all).await.map_err(|x| format!("write: {x}"));
            wr.shutdown().await.ok();
            r
        };
        let nmsgs = msgs.len();
        let entry = c.entry;
        let receiver = async {
            for k in 0..nmsgs {
                entry_reply(&mut rd, entry, k).await?;
            }
            Ok::<_, String>(recv_pattern(&mut rd, i, 1, usize::MAX).await)
        };
        let (w, got) = tokio::join!(sender, receiver);
        let mut r = res.borrow_mut();
        match got {
            Err(e) => {
                r[i].handshake = Some(e);
                r[i].client_done = Some("handshake failed".into());
            }
            Ok((n, ok, eof, err)) => {
                r[i].handshake = Some("ok".into());
                r[i].client_rx = n;
                r[i].client_rx_ok = ok;
                r[i].client_eof = eof;
                r[i].client_err = err;
                r[i].client_done = Some(format!("eager: sent {off} bytes with the request: {w:?}"));
            }
        }
        return;
    }
    if let Err(e) = entry_handshake(&mut s, c.entry, port, c.unreachable && c.target_mode == 3).await {
        res.borrow_mut()[i].handshake = Some(e);
        res.borrow_mut()[i].client_done = Some("handshake failed".into());
        return;
    }
    res.borrow_mut()[i].handshake = Some("ok".into());
    let want_down = total(&c.down);
    let (mut rd, mut wr) = tokio::io::split(s);
    let outcome = match c.client_end {
        2 => {
            // read to EOF first: the target half-closes before we have sent anything
            let (n, ok, eof, err) = recv_pattern(&mut rd, i, 1, usize::MAX).await;
            {
                let mut r = res.borrow_mut();
                r[i].client_rx = n;
                r[i].client_rx_ok = ok;
                r[i].client_eof = eof;
                r[i].client_err = err;
                r[i].client_eof_before_sending = eof;
            }
            let w = send_pattern(&mut wr, i, 0, &c.up, c.up_gap_ms).await;
            wr.shutdown().await.ok();
            format!("{w:?}")
        }
        3 => {
            // send the request, half-close, read part of the answer, then go away while the target
            // is still sending: the target must find its connection closed, not block for ever
            let w = send_pattern(&mut wr, i, 0, &c.up, c.up_gap_ms).await;
            wr.shutdown().await.ok();
            let (n, ok, eof, err) = recv_pattern(&mut rd, i, 1, c.early_k.min(want_down / 2)).await;
            {
                let mut r = res.borrow_mut();
                r[i].client_rx = n;
                r[i].client_rx_ok = ok;
                r[i].client_eof = eof;
                r[i].client_err = err;
            }
            tokio::time::sleep(ms(c.up_gap_ms)).await;
            drop((rd, wr));
            format!("{w:?}, closed after {n} of {want_down} bytes of the answer")
        }
        1 => {
            let w = send_pattern(&mut wr, i, 0, &c.up, c.up_gap_ms).await;
            let (n, ok, eof, err) = recv_pattern(&mut rd, i, 1, want_down).await;
            let mut r = res.borrow_mut();
            r[i].client_rx = n;
            r[i].client_rx_ok = ok;
            r[i].client_eof = eof;
            r[i].client_err = err;
            format!("{w:?}")
        }
        _ => {
            // send and receive concurrently, half-close after sending, read to EOF
            let up = c.up.clone();
            let sender = async {
                let w = send_pattern(&mut wr, i, 0, &up, c.up_gap_ms).await;
                wr.shutdown().await.ok();
                w
            };
            let receiver = recv_pattern(&mut rd, i, 1, usize::MAX);
            let (w, (n, ok, eof, err)) = tokio::join!(sender, receiver);
            let mut r = res.borrow_mut();
            r[i].client_rx = n;
            r[i].client_rx_ok = ok;
            r[i].client_eof = eof;
            r[i].client_err = err;
            format!("{w:?}")
        }
    };
    res.borrow_mut()[i].client_done = Some(outcome);
}

async fn target_conn(mut s: TcpStream, i: usize, c: TcpConn, res: Rc<RefCell<Vec<ConnRes>>>) {
    res.borrow_mut()[i].target_accepted = true;
    let outcome = match c.target_mode {
        2 => {
            let (n, ok, eof, _) = recv_pattern(&mut s, i, 0, c.early_k).await;
            let mut r = res.borrow_mut();
            r[i].target_rx = n;
            r[i].target_rx_ok = ok;
            r[i].target_eof = eof;
            "closed early".to_string()
        }
        4 => {
            tokio::time::sleep(ms(c.target_read_delay_ms)).await;
            let (n, ok, eof, err) = recv_pattern(&mut s, i, 0, usize::MAX).await;
            let mut r = res.borrow_mut();
            r[i].target_rx = n;
            r[i].target_rx_ok = ok;
            r[i].target_eof = eof;
            format!("silent target saw eof={eof} err={err:?}")
        }
        6 => {
            // reads the request to its end, then streams a long answer: the local client will go
            // away in the middle of it
            let (mut rd, mut wr) = tokio::io::split(s);
            let (n, ok, eof, _) = recv_pattern(&mut rd, i, 0, usize::MAX).await;
            {
                let mut r = res.borrow_mut();
                r[i].target_rx = n;
                r[i].target_rx_ok = ok;
                r[i].target_eof = eof;
            }
            let w = send_pattern(&mut wr, i, 1, &c.down, c.down_gap_ms).await;
            format!("request read to its end, answer: {w:?}")
        }
        5 => {
            // answers, half-closes, never reads, and closes a while later: the local client, still
            // uploading, must find its connection closed rather than hang
            let (rd, mut wr) = tokio::io::split(s);
            let w = send_pattern(&mut wr, i, 1, &c.down, c.down_gap_ms).await;
            wr.shutdown().await.ok();
            tokio::time::sleep(ms(c.target_read_delay_ms.max(200))).await;
            drop((rd, wr));
            format!("answered {w:?}, closed without reading")
        }
        1 => {
            let (mut rd, mut wr) = tokio::io::split(s);
            let w = send_pattern(&mut wr, i, 1, &c.down, c.down_gap_ms).await;
            wr.shutdown().await.ok();
            tokio::time::sleep(ms(c.target_read_delay_ms)).await;
            let (n, ok, eof, err) = recv_pattern(&mut rd, i, 0, usize::MAX).await;
            let mut r = res.borrow_mut();
            r[i].target_rx = n;
            r[i].target_rx_ok = ok;
            r[i].target_eof = eof;
            format!("{w:?} {err:?}")
        }
        _ => {
            let (mut rd, mut wr) = tokio::io::split(s);
            let down = c.down.clone();
            let sender = async { send_pattern(&mut wr, i, 1, &down, c.down_gap_ms).await };
            let receiver = async {
                tokio::time::sleep(ms(c.target_read_delay_ms)).await;
                recv_pattern(&mut rd, i, 0, usize::MAX).await
            };
            let (w, (n, ok, eof, err)) = tokio::join!(sender, receiver);
            wr.shutdown().await.ok();
            let mut r = res.borrow_mut();
            r[i].target_rx = n;
            r[i].target_rx_ok = ok;
            r[i].target_eof = eof;
            format!("{w:?} {err:?}")
        }
    };
    res.borrow_mut()[i].target_done = Some(outcome);
}

fn udp_payload(client: usize, k: usize, n: usize) -> Vec<u8> {
    (0..n as u64).map(|j| pbyte(500 + client, k % 16, j + (k as u64) * 7)).collect()
}

async fn udp_client(ci: usize, c: UdpClient, res: Rc<RefCell<Vec<UdpRes>>>, faulty: bool, n_targets: usize) {
    tokio::time::sleep(ms(c.start_ms)).await;
    let sock = UdpSocket::bind("127.0.0.1:0").await.expect("bind local udp");
    let tgt_of = |k: usize| -> usize { if c.via_socks { (c.target + c.hops.get(k).copied().unwrap_or(0)) % n_targets.max(1) } else { c.target } };
    // where we send: the UDP remote of the client, or the SOCKS5 relay
    let mut _ctrl = None;
    let dest: SocketAddr = if c.via_socks {
        let mut t = match TcpStream::connect(("127.0.0.1", SOCKS_PORT)).await {
            Ok(t) => t,
            Err(e) => {
                res.borrow_mut()[ci].problems.push(format!("cannot reach the SOCKS entry point: {e}"));
                res.borrow_mut()[ci].done = true;
                return;
            }
        };
        let r: Result<SocketAddr, String> = async {
            t.write_all(&[5, 1, 0]).await.map_err(|e| e.to_string())?;
            let mut m = [0u8; 2];
            t.read_exact(&mut m).await.map_err(|e| e.to_string())?;
            t.write_all(&[5, 3, 0, 1, 0, 0, 0, 0, 0, 0]).await.map_err(|e| e.to_string())?;
            let mut rep = [0u8; 10];
            t.read_exact(&mut rep).await.map_err(|e| format!("UDP ASSOCIATE reply: {e}"))?;
            if rep[0] != 5 || rep[1] != 0 || rep[3] != 1 {
                return Err(format!("UDP ASSOCIATE reply {rep:?}"));
            }
            Ok(SocketAddr::from(([rep[4], rep[5], rep[6], rep[7]], u16::from_be_bytes([rep[8], rep[9]]))))
        }
        .await;
        match r {
            Ok(a) => {
                _ctrl = Some(t);
                a
            }
            Err(e) => {
                res.borrow_mut()[ci].problems.push(e);
                res.borrow_mut()[ci].done = true;
                return;
            }
        }
    } else {
        // (a wildcard-bound remote is reachable through every local address of the host)
        SocketAddr::from(([127, 0, 0, if c.alt_local { 2 } else { 1 }], 7100 + c.target as u16))
    };
    let mut buf = vec![0u8; 70_000];
    // pair mode: datagram k+1 already sent with datagram k; a reply to it that came early
    let mut present: Option<usize> = None;
    let mut early: Option<(Vec<u8>, SocketAddr)> = None;
    let mut early_for: Option<usize> = None;
    let pairs = c.pairs && c.via_socks && !faulty && c.burst == 0 && c.stream_n == 0;
    let socks_pkt = |k: usize| -> Vec<u8> {
        let to_v6 = c.v6.get(k).copied().unwrap_or(false);
        let target_port = if to_v6 { 9200 } else { 9100 } + tgt_of(k) as u16;
        let mut pkt = vec![];
        if to_v6 {
            pkt.extend([0, 0, 0, 4]);
            pkt.extend(std::net::Ipv6Addr::LOCALHOST.octets());
        } else {
            pkt.extend([0, 0, 0, 1, 127, 0, 0, 1]);
        }
        pkt.extend(target_port.to_be_bytes());
        pkt.extend(udp_payload(ci, k, c.sizes[k]));
        pkt
    };
    for (k, n) in c.sizes.iter().enumerate() {
        let mut payload = udp_payload(ci, k, *n);
        let streaming = c.stream_n > 0 && c.burst == 0 && k + 1 == c.sizes.len() && !faulty;
        if streaming {
            let mut p = b"STREAM".to_vec();
            p.push(c.stream_n.min(12) as u8);
            p.extend(&payload);
            payload = p;
        }
        if c.burst > 0 && !c.via_socks {
            let mut p = b"BURST".to_vec();
            p.extend((c.burst.min(60_000) as u16).to_be_bytes());
            p.extend(&payload);
            payload = p;
        }
        let to_v6 = c.via_socks && c.v6.get(k).copied().unwrap_or(false);
        let target_port = if to_v6 { 9200 } else { 9100 } + tgt_of(k) as u16;
        let mut pkt = vec![];
        if c.via_socks {
            if to_v6 {
                pkt.extend([0, 0, 0, 4]);
                pkt.extend(std::net::Ipv6Addr::LOCALHOST.octets());
            } else {
                pkt.extend([0, 0, 0, 1, 127, 0, 0, 1]);
            }
            pkt.extend(target_port.to_be_bytes());
        }
        pkt.extend(&payload);
        if c.via_socks && k >= 1 {
            let junk: Option<Vec<u8>> = match c.junk.get(k).copied().unwrap_or(0) {
                1 => Some(vec![0]),
                2 => Some(vec![0, 0, 0, 9, 1, 2, 3, 4, 0, 80, b'x']),
                3 => Some(vec![0, 0, 0, 4, 1, 2, 3]),
                4 => Some(vec![0, 0, 1, 1, 127, 0, 0, 1, 0, 80, b'f']),
                _ => None,
            };
            if let Some(j) = junk {
                sock.send_to(&j, dest).await.ok();
                res.borrow_mut()[ci].junk_sent += 1;
            }
        }
        if present == Some(k) {
            // went out right behind datagram k-1
            present = None;
        } else {
            if sock.send_to(&pkt, dest).await.is_err() {
                res.borrow_mut()[ci].problems.push("send_to failed".into());
                break;
            }
            res.borrow_mut()[ci].sent += 1;
            if pairs && k % 2 == 0 && k + 1 < c.sizes.len() {
                if sock.send_to(&socks_pkt(k + 1), dest).await.is_err() {
                    res.borrow_mut()[ci].problems.push("send_to failed".into());
                    break;
                }
                res.borrow_mut()[ci].sent += 1;
                res.borrow_mut()[ci].paired += 1;
                present = Some(k + 1);
            }
        }
        // the reply: "re:" + target index + our payload
        let mut expect = format!("re{}:", tgt_of(k)).into_bytes();
        expect.extend(&payload);
        let deadline = tokio::time::Instant::now() + Duration::from_secs(8);
        let got = loop {
            if early_for == Some(k) {
                // the reply to this datagram overtook the one to its predecessor
                early_for = None;
                let (b, from) = early.take().expect("stashed reply");
                buf[..b.len()].copy_from_slice(&b);
                break Ok(Ok((b.len(), from)));
            }
            match tokio::time::timeout_at(deadline, sock.recv_from(&mut buf)).await {
                Ok(Ok((len, _))) if c.burst > 0 && buf[..len].starts_with(b"fill:") => {
                    res.borrow_mut()[ci].fillers += 1;
                }
                Ok(Ok((len, from))) if present == Some(k + 1) && {
                    let mut e = format!("re{}:", tgt_of(k + 1)).into_bytes();
                    e.extend(udp_payload(ci, k + 1, c.sizes[k + 1]));
                    buf[..len].ends_with(&e) && !e.is_empty() && e != expect
                } => {
                    early = Some((buf[..len].to_vec(), from));
                    early_for = Some(k + 1);
                }
                other => break other,
            }
        };
        match got {
            Err(_) => {
                res.borrow_mut()[ci].lost += 1;
                if !faulty {
                    res.borrow_mut()[ci].problems.push(format!("exchange {k} ({n}-byte payload): no reply within 8 s (inside the prune window, buffers never full)"));
                }
            }
            Ok(Err(e)) => res.borrow_mut()[ci].problems.push(format!("recv_from failed: {e}")),
            Ok(Ok((len, from))) => {
                let got = &buf[..len];
                let body: Result<Vec<u8>, String> = if c.via_socks {
                    // RFC 1928 section 7: RSV(2) FRAG(1) ATYP(1) DST.ADDR DST.PORT DATA
                    if got.len() < 4 || got[0] != 0 || got[1] != 0 || got[2] != 0 {
                        Err(format!("reply does not start with RSV RSV FRAG=0: {:02x?}", &got[..got.len().min(12)]))
                    } else {
                        match got[3] {
                            1 if got.len() >= 10 => Ok(got[10..].to_vec()),
                            4 if got.len() >= 22 => Ok(got[22..].to_vec()),
                            3 if got.len() >= 5 && got.len() >= 7 + got[4] as usize => Ok(got[7 + got[4] as usize..].to_vec()),
                            x => Err(format!("reply header has address type {x} / is truncated: {:02x?}", &got[..got.len().min(12)])),
                        }
                    }
                } else {
                    Ok(got.to_vec())
                };
                let mut r = res.borrow_mut();
                if from != dest {
                    r[ci].problems.push(format!("exchange {k}: reply came from {from}, the client sent to {dest}{}", if c.alt_local && !c.via_socks { " (wildcard-bound UDP remote, secondary local address)" } else { "" }));
                }
                match body {
                    Err(e) => r[ci].problems.push(format!("exchange {k}: {e}")),
                    Ok(b) if b == expect => r[ci].replies_ok += 1,
                    Ok(b) => {
                        // in faulty configurations an older reply of our own may arrive late (reordering / duplication)
                        let own_older = (0..k).any(|j| {
                            let mut e = format!("re{}:", tgt_of(j)).into_bytes();
                            e.extend(udp_payload(ci, j, c.sizes[j]));
                            e == b
                        });
                        if !own_older {
                            r[ci].problems.push(format!("exchange {k}: reply payload ({} bytes) is not the reply to this client's datagram ({} bytes expected): misdelivered or modified", b.len(), expect.len()));
                        }
                    }
                }
            }
        }
        if streaming {
            // the unasked follow-ups: "rs" + target + ":" + j + ":" + the request's payload, one every 3 s
            for j in 0..c.stream_n.min(12) {
                let mut want = format!("rs{}:{j}:", tgt_of(k)).into_bytes();
                want.extend(&payload);
                match tokio::time::timeout(Duration::from_secs(3 + 5), sock.recv_from(&mut buf)).await {
                    Ok(Ok((len, _))) => {
                        let got = &buf[..len];
                        let body: &[u8] = if c.via_socks && got.len() >= 10 && got[3] == 1 { &got[10..] } else if c.via_socks && got.len() >= 22 && got[3] == 4 { &got[22..] } else { got };
                        if body == &want[..] {
                            res.borrow_mut()[ci].streamed += 1;
                        } else {
                            res.borrow_mut()[ci].problems.push(format!("exchange {k}: follow-up {j} of the target arrived modified or out of order ({} bytes, {} expected)", body.len(), want.len()));
                            break;
                        }
                    }
                    _ => {
                        res.borrow_mut()[ci].problems.push(format!("exchange {k}: no reply: follow-up {j} of the target (sent {} s after the client's last datagram, 3 s after the previous one) never reached the client", 3 * (j + 1)));
                        break;
                    }
                }
            }
        }
        tokio::time::sleep(ms(c.gap_ms)).await;
    }
    res.borrow_mut()[ci].done = true;
}

pub fn run(plan: &C01Plan, sched: &Sched) -> Outcome {
    let seed = match sched {
        Sched::Seeded(s) => *s,
        Sched::Recorded(_) => 1,
    };
    // total interpreter: shrunk plans stay meaningful
    let mut plan_fixed = plan.clone();
    plan_fixed.n_udp_targets = plan_fixed.n_udp_targets.max(1);
    for u in &mut plan_fixed.udp {
        u.target %= plan_fixed.n_udp_targets;
    }
    let plan = &plan_fixed;
    let plan2 = plan.clone();
    let mut handle: Option<ClientHandle> = None;
    let hslot: *mut Option<ClientHandle> = &mut handle;
    let (cres, ures, hung, digest, events, counters, client_state, t_end) = run_world(seed, &plan.net, move || async move {
        let plan = plan2;
        penguin_simnet::with(|w| {
            w.dns.insert("target.sim".into(), vec![std::net::Ipv4Addr::LOCALHOST.into()]);
            w.unreachable.push(UNREACHABLE_V6.into());
            w.dns.insert("dual.sim".into(), vec![std::net::Ipv6Addr::LOCALHOST.into(), std::net::Ipv4Addr::LOCALHOST.into()]);
        });
        let cres: Rc<RefCell<Vec<ConnRes>>> = Rc::new(RefCell::new(vec![ConnRes::default(); plan.tcp.len()]));
        let ures: Rc<RefCell<Vec<UdpRes>>> = Rc::new(RefCell::new(vec![UdpRes::default(); plan.udp.len()]));
        let faulty = plan.net.udp_loss + plan.net.udp_dup + plan.net.udp_reorder > 0;
        let ls = tokio::task::LocalSet::new();
        let (cres2, ures2) = (cres.clone(), ures.clone());
        let plan3 = plan.clone();
        let out = ls
            .run_until(async move {
                let plan = plan3;
                // ---- targets
                for (i, c) in plan.tcp.iter().enumerate() {
                    if c.target_mode == 3 {
                        continue;
                    }
                    let bind = if c.entry == 6 || c.entry == 8 { format!("[::1]:{}", 10_000 + i) } else { format!("127.0.0.1:{}", 10_000 + i) };
                    let l = TcpListener::bind(bind.as_str()).await.expect("bind target");
                    let (c, res) = (c.clone(), cres2.clone());
                    tokio::task::spawn_local(async move {
                        if let Ok((s, _)) = l.accept().await {
                            drop(l);
                            target_conn(s, i, c, res).await;
                        }
                    });
                }
                for t6 in 0..2 * plan.n_udp_targets {
                    // every UDP target has an IPv6 twin
                    let t = t6 % plan.n_udp_targets;
                    let sock = if t6 < plan.n_udp_targets { UdpSocket::bind(("127.0.0.1", 9100 + t as u16)).await } else { UdpSocket::bind(("::1", 9200 + t as u16)).await }.expect("bind udp target");
                    let sock = Rc::new(sock);
                    tokio::task::spawn_local(async move {
                        let mut b = vec![0u8; 70_000];
                        loop {
                            let Ok((n, from)) = sock.recv_from(&mut b).await else { break };
                            let mut r = format!("re{t}:").into_bytes();
                            r.extend(&b[..n]);
                            if n >= 7 && b[..n].starts_with(b"STREAM") {
                                // the answer now, then unasked follow-ups every three seconds
                                sock.send_to(&r, from).await.ok();
                                let (s2, cnt, req) = (sock.clone(), b[6] as usize, b[..n].to_vec());
                                tokio::task::spawn_local(async move {
                                    for j in 0..cnt {
                                        tokio::time::sleep(Duration::from_secs(3)).await;
                                        let mut f = format!("rs{t}:{j}:").into_bytes();
                                        f.extend(&req);
                                        s2.send_to(&f, from).await.ok();
                                    }
                                });
                                continue;
                            }
                            if n >= 7 && b[..n].starts_with(b"BURST") {
                                // a burst of fillers at once, the real reply three seconds later
                                for k in 0..u16::from_be_bytes([b[5], b[6]]) {
                                    sock.send_to(format!("fill:{k}").as_bytes(), from).await.ok();
                                }
                                let s2 = sock.clone();
                                tokio::task::spawn_local(async move {
                                    tokio::time::sleep(Duration::from_secs(3)).await;
                                    s2.send_to(&r, from).await.ok();
                                });
                                continue;
                            }
                            sock.send_to(&r, from).await.ok();
                        }
                    });
                }
                // ---- the real server
                let state = State::new().await.expect("state");
                let sl = TcpListener::bind(("127.0.0.1", SERVER_PORT)).await.expect("bind server");
                tokio::spawn(run_listener(sl, None, state));
                // ---- the real client
                let mut remotes = vec![format!("127.0.0.1:{SOCKS_PORT}:socks"), format!("127.0.0.1:{HTTP_PORT}:http")];
                for (i, c) in plan.tcp.iter().enumerate() {
                    match c.entry {
                        0 => remotes.push(format!("127.0.0.1:{}:127.0.0.1:{}", 7000 + i, 10_000 + i)),
                        1 => remotes.push(format!("[unix:/sim/c{i}.sock]:127.0.0.1:{}", 10_000 + i)),
                        _ => {}
                    }
                }
                for t in 0..plan.n_udp_targets {
                    remotes.push(if plan.udp_wildcard { format!("{}:127.0.0.1:{}/udp", 7100 + t, 9100 + t) } else { format!("127.0.0.1:{}:127.0.0.1:{}/udp", 7100 + t, 9100 + t) });
                }
                for j in 0..plan.idle_remotes.min(200) {
                    remotes.push(format!("127.0.0.1:{}:127.0.0.1:1", 6000 + j));
                }
                let client = spawn_client(&ClientCfg { server: format!("ws://127.0.0.1:{SERVER_PORT}/ws"), remotes, max_retry_count: 3, max_retry_interval: 10_000, handshake_timeout_s: 5, channel_timeout_s: 30, psk: None, keepalive_ms: plan.keepalive_ms });
                // let the tunnel come up
                tokio::time::sleep(ms(500)).await;
                // ---- local clients
                let mut tasks = vec![];
                for (i, c) in plan.tcp.iter().enumerate() {
                    let (c, res) = (c.clone(), cres2.clone());
                    tasks.push(tokio::task::spawn_local(async move {
                        tokio::time::sleep(ms(c.start_ms)).await;
                        match c.entry {
                            1 => match UnixStream::connect(format!("/sim/c{i}.sock")).await {
                                Ok(s) => local_client(s, i, c, res).await,
                                Err(e) => res.borrow_mut()[i].handshake = Some(format!("cannot connect to the Unix-socket entry point: {e}")),
                            },
                            _ => {
                                let port = match c.entry {
                                    0 => 7000 + i as u16,
                                    7 | 8 => HTTP_PORT,
                                    _ => SOCKS_PORT,
                                };
                                match TcpStream::connect(("127.0.0.1", port)).await {
                                    Ok(s) => local_client(s, i, c, res).await,
                                    Err(e) => res.borrow_mut()[i].handshake = Some(format!("cannot connect to the entry point on port {port}: {e}")),
                                }
                            }
                        }
                    }));
                }
                for (ci, c) in plan.udp.iter().enumerate() {
                    tasks.push(tokio::task::spawn_local(udp_client(ci, c.clone(), ures2.clone(), faulty, plan.n_udp_targets)));
                }
                // ---- run to the horizon: everything must have resolved by then
                let all = async {
                    for t in tasks {
                        t.await.ok();
                    }
                };
                // "Pending at the horizon" must not encode a transfer rate: megabytes through 1 KiB socket
                // buffers with 50 ms latency legitimately take minutes. The horizon is therefore
                // progress-based: the run ends when everything has resolved, or when the simulated
                // network has not moved a single byte for IDLE seconds (nothing can change any more:
                // the system has no timers longer than that apart from the UDP prune timer, which
                // only closes things), or at a hard cap.
                const IDLE: u64 = 120;
                const CAP: u64 = 4 * 3600;
                let t_start = now();
                let mut all = std::pin::pin!(all);
                // (with the client's keepalive on, Pings keep the tunnel connection itself busy for
                // ever: such runs have a network without latency, where transfers take no simulated
                // time, and look at everything but the tunnel connection)
                let ka = plan.keepalive_ms[0] > 0;
                let world_digest = move || {
                    let (d, e) = world_digest();
                    if ka {
                        let tunnel: u64 = attempts_to(SERVER_PORT).iter().map(|a| penguin_simnet::with(|w| w.events_by_conn.get(&a.2).copied().unwrap_or(0))).sum();
                        (d, e - tunnel)
                    } else {
                        (d, e)
                    }
                };
                let (mut last_events, mut idle) = (world_digest().1, 0u64);
                let mut hung = false;
                loop {
                    tokio::select! {
                        biased;
                        () = &mut all => break,
                        () = tokio::time::sleep(Duration::from_secs(10)) => {}
                    }
                    let e = world_digest().1;
                    if e == last_events { idle += 10 } else { idle = 0; last_events = e }
                    if idle >= IDLE || (now() - t_start).as_secs() > CAP {
                        hung = true;
                        break;
                    }
                }
                // targets then observe the final bytes and EOFs: same progress-based wait
                idle = 0;
                loop {
                    tokio::time::sleep(Duration::from_secs(10)).await;
                    let done = cres2.borrow().iter().all(|r| !r.target_accepted || r.target_done.is_some());
                    let e = world_digest().1;
                    if e == last_events { idle += 10 } else { idle = 0; last_events = e }
                    if (done && idle >= 20) || idle >= IDLE || (now() - t_start).as_secs() > 2 * CAP {
                        break;
                    }
                }
                (client, hung)
            })
            .await;
        let (mut client, hung) = out;
        let client_state = {
            use futures_util::FutureExt;
            if client.task.is_finished() { format!("{:?}", (&mut client.task).now_or_never()) } else { "running".to_string() }
        };
        let (digest, events) = world_digest();
        let counters = world_counters();
        let t_end = now();
        dump_log();
        unsafe { *hslot = Some(client) };
        (cres.borrow().clone(), ures.borrow().clone(), hung, digest, events, counters, client_state, t_end)
    });
    if let Some(h) = handle.take() {
        unsafe { h.reclaim() };
    }
    // ------------------------------------------------------------ oracle
    let mut o = Outcome { digest: digest ^ events, steps: events, sim_ms: t_end.as_millis() as u64, ..Default::default() };
    for (k, v) in &counters {
        if k.starts_with("udp-lost") || k.starts_with("udp-dup") || k.starts_with("udp-reorder") {
            o.probe(&format!("fault:{k}"), *v);
        }
    }
    if client_state != "running" {
        o.violate("C01:client-exited", format!("the client ended during the run: {client_state}"));
    }
    let entry_name = |e: u8| ["TCP-port remote", "Unix-socket remote", "SOCKS4", "SOCKS4a", "SOCKS5/IPv4", "SOCKS5/domain", "SOCKS5/IPv6", "HTTP CONNECT", "HTTP CONNECT/IPv6 literal", "SOCKS5/domain with two addresses"][e.min(9) as usize];
    for (i, c) in plan.tcp.iter().enumerate() {
        let r = &cres[i];
        let (up, down) = (total(&c.up), total(&c.down));
        let desc = format!("connection {i} via {} (client_end {}, target_mode {}, up {:?}, down {:?}, target read delay {} ms): {r:?}", entry_name(c.entry), c.client_end, c.target_mode, c.up, c.down, c.target_read_delay_ms);
        o.probe(&format!("entry:{}", entry_name(c.entry)), 1);
        match &r.handshake {
            None => {
                o.violate("C01:tcp-hang", format!("the local connection never got through the entry point; {desc}"));
                continue;
            }
            Some(h) if h != "ok" => {
                // refusing target behind SOCKS/HTTP: the entry point may answer with a failure or close; anything but a hang
                if c.target_mode == 3 || c.target_mode == 2 {
                    o.probe("target-refused-or-closed-early", 1);
                    if c.unreachable && c.target_mode == 3 {
                        o.probe("fault:destination-without-a-route", 1);
                    }
                } else {
                    o.violate("C01:entry-handshake", format!("{h}; {desc}"));
                }
                continue;
            }
            _ => {}
        }
        if !r.client_rx_ok && r.client_rx > 0 {
            o.violate("C01:tcp-corrupt", format!("bytes the local client received are not the bytes the target sent (modified, reordered or from another connection); {desc}"));
        }
        if !r.target_rx_ok && r.target_rx > 0 {
            o.violate("C01:tcp-corrupt", format!("bytes the target received are not the bytes the local client sent; {desc}"));
        }
        if r.client_rx > down || r.target_rx > up {
            o.violate("C01:tcp-corrupt", format!("more bytes arrived than were sent; {desc}"));
        }
        if r.client_done.is_none() {
            o.violate("C01:tcp-hang", format!("the local connection is still pending at the horizon; {desc}"));
            continue;
        }
        match c.target_mode {
            0 | 1 => {
                // orderly: both half-closes are propagated, every byte arrives
                if r.target_done.is_none() {
                    o.violate("C01:tcp-hang", format!("the target's connection is still pending at the horizon (the local client's half-close or data never arrived); {desc}"));
                } else if c.client_end != 1 {
                    if r.target_rx != up || !r.target_eof {
                        o.violate("C01:tcp-incomplete", format!("the target received {} of {up} bytes, EOF seen: {}; {desc}", r.target_rx, r.target_eof));
                    }
                    if r.client_rx != down || !r.client_eof {
                        o.violate("C01:tcp-incomplete", format!("the local client received {} of {down} bytes, EOF seen: {}; {desc}", r.client_rx, r.client_eof));
                    }
                    if c.client_end == 2 {
                        if !r.client_eof_before_sending {
                            o.violate("C01:half-close", format!("the target's half-close did not reach the local client while the other direction was still open; {desc}"));
                        }
                        o.probe("target-half-closed-first", 1);
                    } else {
                        o.probe("client-half-closed-first", 1);
                    }
                } else if r.client_rx != down {
                    o.violate("C01:tcp-incomplete", format!("the local client received {} of {down} bytes; {desc}", r.client_rx));
                }
            }
            2 | 3 => {
                // the target closed early or refused: the local connection is closed rather than left hanging
                // (client_done is set), and whatever arrived is a prefix
                o.probe("target-refused-or-closed-early", 1);
                if c.unreachable && c.target_mode == 3 {
                    o.probe("fault:destination-without-a-route", 1);
                }
            }
            6 => {
                // the local client went away while the target was sending: a direct connection
                // would have failed the target's writes; it must not be left blocked for ever
                if r.target_done.is_none() {
                    o.violate("C01:tcp-hang", format!("the local client closed its connection while the target was still sending, but the target's connection is still pending at the horizon (its writes block instead of failing); {desc}"));
                } else if r.target_done.as_deref().is_some_and(|d| d.contains("Err")) {
                    o.probe("client-closed-while-target-was-sending", 1);
                }
                if r.target_rx != up || !r.target_eof {
                    o.violate("C01:tcp-incomplete", format!("the target received {} of {up} bytes of the request, EOF seen: {}; {desc}", r.target_rx, r.target_eof));
                }
            }
            5 => {
                // (client_done is set: checked above) the uploader was not left hanging
                o.probe("target-closed-without-reading", 1);
                if up >= 1024 * 1024 {
                    o.probe("target-closed-without-reading-while-uploader-out-of-credit", 1);
                }
            }
            _ => {
                // silent target: it must see the local client's close
                if r.target_done.is_none() {
                    o.violate("C01:tcp-hang", format!("the local client closed but the silent target never saw end-of-stream or an error; {desc}"));
                } else if c.client_end == 0 && (r.target_rx != up) {
                    o.violate("C01:tcp-incomplete", format!("the silent target received {} of {up} bytes; {desc}", r.target_rx));
                }
                o.probe("client-closed-on-silent-target", 1);
            }
        }
        if up + down >= 4 * 1024 * 1024 {
            o.probe("transfer-exceeds-production-window", 1);
        }
    }
    let faulty = plan.net.udp_loss + plan.net.udp_dup + plan.net.udp_reorder > 0;
    for (ci, c) in plan.udp.iter().enumerate() {
        let r = &ures[ci];
        let desc = format!("UDP client {ci} ({}, target {}, payload sizes {:?}{}): sent {} replies ok {} lost {}", if c.via_socks { "SOCKS5 UDP ASSOCIATE" } else { "UDP remote" }, c.target, c.sizes, if c.burst > 0 { format!(", each request answered by {} fillers at once ({} got through) and the reply 3 s later", c.burst, r.fillers) } else { String::new() }, r.sent, r.replies_ok, r.lost);
        if c.stream_n >= 4 && r.streamed == c.stream_n.min(12) {
            o.probe("udp-target-streams-longer-than-the-prune-timeout", 1);
        }
        if c.burst > 64 && r.replies_ok > 0 {
            o.probe("udp-reply-after-a-burst-beyond-the-server-queue", 1);
        }
        if r.paired > 0 {
            o.probe("udp-datagrams-sent-back-to-back-on-one-association", r.paired as u64);
        }
        if !r.done {
            o.violate("C01:udp-hang", format!("still pending at the horizon; {desc}"));
        }
        for p in &r.problems {
            let class = if p.contains("no reply") { "C01:udp-lost" } else if p.contains("came from") && p.contains("wildcard-bound UDP remote") { "C01:udp-source-address:wildcard-remote" } else if p.contains("came from") { "C01:udp-source-address" } else if p.contains("header") || p.contains("RSV") { "C01:udp-socks-header" } else if p.contains("misdelivered") { "C01:udp-misdelivered" } else { "C01:udp-error" };
            o.violate(class, format!("{p}; {desc}"));
        }
        o.probe(if c.via_socks { "udp-via-socks5" } else { "udp-via-remote" }, r.replies_ok as u64);
        if c.via_socks && c.v6.iter().take(c.sizes.len()).any(|x| *x) && c.v6.iter().take(c.sizes.len()).any(|x| !*x) && c.sizes.len() > 1 {
            o.probe("one-association-both-address-families", 1);
        }
        if r.junk_sent > 0 {
            o.probe("fault:unparseable-datagram-to-socks5-relay", r.junk_sent as u64);
        }
        if c.gap_ms > 10_000 && c.sizes.len() > 1 {
            o.probe("udp-client-idle-longer-than-the-prune-timeout", 1);
        }
        if c.sizes.iter().any(|s| *s < 4) {
            o.probe("udp-payload-under-4-bytes", 1);
        }
        if c.via_socks && plan.n_udp_targets > 1 && c.hops.iter().take(c.sizes.len()).any(|h| h % plan.n_udp_targets != 0) && r.replies_ok > 1 {
            o.probe("one-association-several-targets", 1);
        }
    }
    if plan.udp.len() > 1 {
        o.probe("concurrent-udp-clients", 1);
    }
    if plan.idle_remotes >= 64 && !plan.tcp.is_empty() {
        o.probe("sixty-four-or-more-idle-listeners", 1);
    }
    let _ = (hung, faulty);
    o.nontrivial = cres.iter().any(|r| r.client_rx > 0 && r.target_rx > 0) || ures.iter().any(|u| u.replies_ok > 0);
    o.note = format!("tcp={} udp={} events={events} t_end={t_end:?}", plan.tcp.len(), plan.udp.len());
    o
}

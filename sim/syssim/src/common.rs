//! Shared pieces of the system-level simulator (E4): one simulated world + one paused,
//! seeded current_thread tokio runtime per run; the real client (`client_main_inner`) and the real
//! server (`run_listener`) on top of `penguin-simnet`.

use penguin_mux::timing::OptionalDuration;
use rusty_penguin_lib::arg::{ClientArgs, Remote, ServerUrl};
use rusty_penguin_lib::client::{HandlerResources, client_main_inner};
use serde::{Deserialize, Serialize};
use std::future::Future;
use std::str::FromStr;
use std::time::Duration;

pub fn ms(x: u64) -> Duration {
    Duration::from_millis(x)
}

#[derive(Serialize, Deserialize, Clone, Debug, Default)]
pub struct NetPlan {
    pub latency_lo: u64,
    pub latency_hi: u64,
    pub partial_io: u32,
    pub spurious_pending: u32,
    pub buf_cap: usize,
    pub udp_loss: u32,
    pub udp_dup: u32,
    pub udp_reorder: u32,
    /// tuning knob (guarded hook `penguin_mux::verif_hooks::set_window`): receive window and
    /// acknowledgement threshold of every multiplexor built in this run; None = penguin's default
    /// of 512 / 256 frames
    #[serde(default)]
    pub window: Option<[u32; 2]>,
}
impl NetPlan {
    pub fn cfg(&self) -> penguin_simnet::NetCfg {
        penguin_simnet::NetCfg {
            latency_ms: (self.latency_lo.min(self.latency_hi), self.latency_hi),
            partial_io: self.partial_io,
            spurious_pending: self.spurious_pending,
            buf_cap: if self.buf_cap == 0 { 256 * 1024 } else { self.buf_cap.max(64) },
            udp_loss: self.udp_loss,
            udp_dup: self.udp_dup,
            udp_reorder: self.udp_reorder,
            keep_log: std::env::var_os("SIM_TRACE").is_some(),
        }
    }
}

/// Run `f` inside a fresh world and a fresh paused runtime whose scheduler RNG is seeded.
pub fn run_world<F: Future>(seed: u64, net: &NetPlan, f: impl FnOnce() -> F) -> F::Output {
    static ONCE: std::sync::Once = std::sync::Once::new();
    ONCE.call_once(|| {
        rusty_penguin_lib::tls::init_crypto_provider();
    });
    penguin_simnet::reset(seed, net.cfg());
    penguin_mux::verif_hooks::set_seed(seed ^ 0xf10e_1d5);
    penguin_mux::verif_hooks::set_window(net.window.map(|w| (w[0].max(1), w[1].max(1))));
    let rt = tokio::runtime::Builder::new_current_thread()
        .enable_all()
        .start_paused(true)
        .rng_seed(tokio::runtime::RngSeed::from_bytes(&seed.to_le_bytes()))
        .build()
        .expect("runtime");
    let out = rt.block_on(async {
        penguin_simnet::with(|w| w.t0 = Some(tokio::time::Instant::now()));
        f().await
    });
    drop(rt);
    out
}

/// Owner of the `'static` data the client wants; reclaimed after the runtime is gone.
pub struct ClientHandle {
    args: *mut ClientArgs,
    hr: *mut HandlerResources,
    pub task: tokio::task::JoinHandle<Result<(), String>>,
}
impl ClientHandle {
    /// # Safety
    /// Must only be called after the runtime that ran the client has been dropped.
    pub unsafe fn reclaim(self) {
        unsafe {
            drop(Box::from_raw(self.args));
            drop(Box::from_raw(self.hr));
        }
    }
}
pub struct ClientCfg {
    pub server: String,
    pub remotes: Vec<String>,
    pub max_retry_count: u32,
    pub max_retry_interval: u64,
    pub handshake_timeout_s: u64,
    pub channel_timeout_s: u64,
    pub psk: Option<String>,
    /// keepalive interval and timeout in ms (0 = none); timed on tokio's clock through the guarded
    /// hook `penguin_mux::verif_hooks::SimInstant`
    pub keepalive_ms: [u64; 2],
}
pub fn spawn_client(c: &ClientCfg) -> ClientHandle {
    let args = Box::into_raw(Box::new(ClientArgs {
        server: ServerUrl::from_str(&c.server).expect("server url"),
        remote: c.remotes.iter().map(|r| Remote::from_str(r).expect("remote spec")).collect(),
        keepalive: if c.keepalive_ms[0] == 0 { OptionalDuration::NONE } else { Duration::from_millis(c.keepalive_ms[0]).into() },
        keepalive_timeout: if c.keepalive_ms[1] == 0 { OptionalDuration::NONE } else { Duration::from_millis(c.keepalive_ms[1]).into() },
        max_retry_count: c.max_retry_count,
        max_retry_interval: c.max_retry_interval,
        handshake_timeout: if c.handshake_timeout_s == 0 { OptionalDuration::NONE } else { OptionalDuration::from_secs(c.handshake_timeout_s) },
        channel_timeout: if c.channel_timeout_s == 0 { OptionalDuration::NONE } else { OptionalDuration::from_secs(c.channel_timeout_s) },
        ws_psk: c.psk.as_ref().map(|p| http::HeaderValue::from_str(p).expect("psk")),
        ..Default::default()
    }));
    let (hr, scrx, dgrx) = HandlerResources::create();
    let hr = Box::into_raw(Box::new(hr));
    // SAFETY: both boxes outlive the runtime (see `reclaim`)
    let (a, h): (&'static ClientArgs, &'static HandlerResources) = unsafe { (&*args, &*hr) };
    let task = tokio::spawn(async move { client_main_inner(a, h, scrx, dgrx).await.map_err(|e| format!("{e:?}")) });
    ClientHandle { args, hr, task }
}

pub fn attempts_to(port: u16) -> Vec<(Duration, bool, u64)> {
    penguin_simnet::with(|w| w.connects.iter().filter(|c| c.to.port() == port).map(|c| (c.t, c.ok, c.conn)).collect())
}
pub fn now() -> Duration {
    penguin_simnet::with(|w| tokio::time::Instant::now().duration_since(w.t0.expect("t0")))
}
pub fn world_digest() -> (u64, u64) {
    penguin_simnet::with(|w| (w.digest, w.events))
}
pub fn world_counters() -> Vec<(String, u64)> {
    penguin_simnet::with(|w| w.counters.iter().map(|(k, v)| (k.to_string(), *v)).collect())
}
pub fn dump_log() {
    if std::env::var_os("SIM_TRACE").is_some() {
        penguin_simnet::with(|w| {
            for l in &w.log {
                eprintln!("{l}");
            }
        });
    }
}
/// payload byte i of logical connection `tag`, direction `dir`
pub fn pbyte(tag: usize, dir: usize, i: u64) -> u8 {
    let mut x = ((tag as u64) << 40) ^ ((dir as u64) << 36) ^ i;
    x ^= x >> 33;
    x = x.wrapping_mul(0xff51_afd7_ed55_8ccd);
    x ^= x >> 29;
    x as u8
}

//! Stub-fidelity self-check: the in-memory WebSocket of the connection-level simulator (`SimWs`) against
//! the real tokio-tungstenite `WebSocketStream` over the simulated network, under seeded sequences of
//! the operations the multiplexor performs. Both are driven through `penguin_mux::ws::WebSocket`
//! and must show the same observable behaviour: per-direction FIFO, automatic Pong for a Ping that
//! was read, Close queued once, end-of-stream after Close was sent and received, errors when
//! sending after Close.

use crate::link::{Link, LinkWorld, SimWs};
use crate::exec::{Seq, World};
use crate::common::*;
use penguin_mux::ws::{Message, WebSocket};
use simcore::Prng;
use std::task::Poll;

#[derive(Clone, Debug)]
enum Op {
    Send(usize, u8, usize), // side, kind (0 binary, 1 ping), len
    Close(usize),
    Recv(usize),
}

fn show(m: &Message) -> String {
    match m {
        Message::Binary(b) => format!("Binary({})", b.len()),
        Message::Ping => "Ping".into(),
        Message::Pong => "Pong".into(),
        Message::Close => "Close".into(),
    }
}

/// apply one op to a pair of WebSocket implementations; `settle` moves everything in flight
async fn apply<W: WebSocket>(ws: &mut [W; 2], op: &Op, settle: &mut dyn FnMut()) -> String {
    let out = match op {
        Op::Send(s, kind, len) => {
            let m = if *kind == 0 { Message::Binary(vec![7u8; *len].into()) } else { Message::Ping };
            let r = std::future::poll_fn(|cx| match ws[*s].poll_ready_unpin(cx) {
                Poll::Ready(r) => Poll::Ready(Some(r)),
                Poll::Pending => Poll::Ready(None),
            })
            .await;
            match r {
                None => "ready:pending".to_string(),
                Some(Err(_)) => "ready:err".to_string(),
                Some(Ok(())) => match ws[*s].start_send_unpin(m) {
                    Err(_) => "send:err".to_string(),
                    Ok(()) => {
                        let f = std::future::poll_fn(|cx| match ws[*s].poll_flush_unpin(cx) {
                            Poll::Ready(r) => Poll::Ready(Some(r.is_ok())),
                            Poll::Pending => Poll::Ready(None),
                        })
                        .await;
                        format!("send:ok flush:{f:?}")
                    }
                },
            }
        }
        Op::Close(s) => {
            let r = std::future::poll_fn(|cx| match ws[*s].poll_close_unpin(cx) {
                Poll::Ready(r) => Poll::Ready(Some(r.is_ok())),
                Poll::Pending => Poll::Ready(None),
            })
            .await;
            format!("close:{r:?}")
        }
        Op::Recv(s) => {
            settle();
            tokio::task::yield_now().await;
            let r = std::future::poll_fn(|cx| match ws[*s].poll_next_unpin(cx) {
                Poll::Ready(r) => Poll::Ready(Some(r)),
                Poll::Pending => Poll::Ready(None),
            })
            .await;
            match r {
                None => "recv:pending".to_string(),
                Some(None) => "recv:end".to_string(),
                Some(Some(Err(_))) => "recv:err".to_string(),
                Some(Some(Ok(m))) => format!("recv:{}", show(&m)),
            }
        }
    };
    settle();
    out
}

pub fn run(n: u64, seed: u64) -> i32 {
    let mut mismatches = 0u64;
    let mut ops_total = 0u64;
    for i in 0..n {
        let s = simcore::prng::mix(seed, "wscontract", i);
        let mut r = Prng::new(s);
        let len = 2 + r.below(14);
        let ops: Vec<Op> = (0..len)
            .map(|_| match r.below(8) {
                0 | 1 | 2 => Op::Send(r.below(2), if r.chance(1, 4) { 1 } else { 0 }, 1 + r.below(300)),
                3 => Op::Close(r.below(2)),
                _ => Op::Recv(r.below(2)),
            })
            .collect();
        ops_total += ops.len() as u64;
        let ops2 = ops.clone();
        let (real, sim): (Vec<String>, Vec<String>) = run_world(s, &NetPlan::default(), move || async move {
            // ---- real tungstenite over the simulated network
            let l = penguin_simnet::TcpListener::bind("127.0.0.1:9").await.expect("bind");
            let c = penguin_simnet::TcpStream::connect("127.0.0.1:9").await.expect("connect");
            let (srv, _) = l.accept().await.expect("accept");
            let a = tokio_tungstenite::WebSocketStream::from_raw_socket(c, tokio_tungstenite::tungstenite::protocol::Role::Client, None).await;
            let b = tokio_tungstenite::WebSocketStream::from_raw_socket(srv, tokio_tungstenite::tungstenite::protocol::Role::Server, None).await;
            let mut pair = [a, b];
            let mut real = vec![];
            for op in &ops2 {
                real.push(apply(&mut pair, op, &mut || {}).await);
            }
            // ---- the stub
            let link = Link::new(1 << 20, 0, Seq::default(), 1);
            link.lock().unwrap().drop_data_after_close_sent = false;
            // side 0 plays the WebSocket client
            link.lock().unwrap().waits_for_transport_close = [true, false];
            let mut world = LinkWorld::new(link.clone());
            let mut pair = [SimWs { link: link.clone(), me: 0 }, SimWs { link: link.clone(), me: 1 }];
            let mut sim = vec![];
            for op in &ops2 {
                // a Close issued while a control reply is still owed cannot happen in the multiplexor
                // (its receive loop polls again, which sends the reply, before anything else runs): skip
                if let Op::Close(s) = op {
                    if link.lock().unwrap().pending_reply[*s].is_some() {
                        return (vec![], vec![]);
                    }
                }
                let mut settle = || {
                    while world.enabled() > 0 {
                        world.fire(0);
                    }
                };
                sim.push(apply(&mut pair, op, &mut settle).await);
            }
            (real, sim)
        });
        if real != sim {
            mismatches += 1;
            if mismatches <= 5 {
                println!("MISMATCH in sequence {i}: ops = {ops:?}");
                for (k, (x, y)) in real.iter().zip(sim.iter()).enumerate() {
                    println!("   {:>2} {:<28} tungstenite: {:<28} stub: {}{}", k, format!("{:?}", ops[k]), x, y, if x != y { "   <-- differs" } else { "" });
                }
            }
        }
    }
    println!("ws-contract: {n} sequences, {ops_total} operations, {mismatches} sequences with a difference");
    if mismatches > 0 { 2 } else { 0 }
}

//! C14: the upgrade gate, reached the only way it can be reached — through a live HTTP connection
//! served by hyper (`run_listener` + `State`) over the simulated network. A raw HTTP/1.1 client sends
//! a request built from the factor matrix, fragmented at seeded points with virtual delays, and its
//! twin on an unknown path; a reference predicate written from the statement says which must be 101.

use crate::common::*;
use base64::Engine;
use penguin_simnet::{TcpListener, TcpStream};
use rusty_penguin_lib::server::{State, run_listener};
use serde::{Deserialize, Serialize};
use sha1::{Digest, Sha1};
use simcore::{Outcome, Sched};
use tokio::io::{AsyncReadExt, AsyncWriteExt};

pub const METHODS: [&str; 4] = ["GET", "POST", "HEAD", "PUT"];
pub const PATHS: [&str; 6] = ["/ws", "/ws/", "/WS", "/health", "/version", "/elsewhere"];
/// header variants: 0 exact, 1 case-changed, 2 near-miss, 3 absent, 4 empty, 5 duplicated-identical,
/// 6 a comma list that contains the exact value (`keep-alive, upgrade`)
pub const N_HVAR: u8 = 7;
/// PSK header variants: 0 equal, 1 absent, 2 prefix, 3 case-variant, 4 padded, 5 another key over
/// the same alphabet, 6 a key over the other alphabet
pub const N_PSK: u8 = 7;
/// configured keys: header values are opaque octets (RFC 9110 obs-text), so a key need not be ASCII
const PSKS: [&str; 2] = ["s3cret-Key", "s3cr\u{e9}t-K\u{e9}y\u{ff}"];
const OTHER_PSKS: [&str; 2] = ["an0ther-Key", "contrase\u{f1}a"];
const KEY: &str = "dGhlIHNhbXBsZSBub25jZQ==";

#[derive(Serialize, Deserialize, Clone, Debug)]
pub struct C14Plan {
    pub psk_on: bool,
    pub obfs: bool,
    pub method: u8,
    pub path: u8,
    /// variants of Connection, Upgrade, Sec-WebSocket-Version, Sec-WebSocket-Protocol, Sec-WebSocket-Key
    pub hv: [u8; 5],
    pub psk: u8,
    /// which key the server is configured with: 0 ASCII, 1 with octets >= 0x80
    #[serde(default)]
    pub psk_kind: u8,
    /// fragment sizes (cycled; empty = one write) and the delay between fragments
    pub frags: Vec<usize>,
    pub frag_delay_ms: u64,
    pub net: NetPlan,
    /// after a 101, run a real multiplexor client on the socket and echo through a target
    pub try_tunnel: bool,
    /// 0 = no backend (configured 404), 1 = a backend is configured and answers, 2 = a backend is
    /// configured but nobody listens there (the proxy attempt fails: configured 404)
    #[serde(default)]
    pub backend: u8,
    /// the request says HTTP/1.0: such a connection cannot be upgraded, so even the fully valid
    /// request may be refused - but then exactly like its twin on an unknown path
    #[serde(default)]
    pub http10: bool,
}

fn header_lines(name: &str, exact: &str, cased: &str, near: &str, v: u8) -> String {
    match v % N_HVAR {
        0 => format!("{name}: {exact}\r\n"),
        1 => format!("{name}: {cased}\r\n"),
        2 => format!("{name}: {near}\r\n"),
        3 => String::new(),
        4 => format!("{name}:\r\n"),
        5 => format!("{name}: {exact}\r\n{name}: {exact}\r\n"),
        // a list that contains the wanted value is not that value
        _ => format!("{name}: keep-alive, {exact}\r\n"),
    }
}
pub fn build_request(p: &C14Plan, path: &str) -> String {
    let mut s = format!("{} {} HTTP/1.{}\r\nHost: sim.example\r\n", METHODS[(p.method as usize) % 4], path, if p.http10 { 0 } else { 1 });
    s += &header_lines("Connection", "upgrade", "UpGrade", "upgrade2", p.hv[0]);
    s += &header_lines("Upgrade", "websocket", "WebSocket", "websockets", p.hv[1]);
    s += &header_lines("Sec-WebSocket-Version", "13", "13", "12", p.hv[2]);
    s += &header_lines("Sec-WebSocket-Protocol", "penguin-v7", "Penguin-V7", "penguin-v6", p.hv[3]);
    s += &header_lines("Sec-WebSocket-Key", KEY, KEY, KEY, p.hv[4]);
    let kind = (p.psk_kind % 2) as usize;
    let key = PSKS[kind];
    s += &match p.psk % N_PSK {
        0 => format!("X-Penguin-PSK: {key}\r\n"),
        1 => String::new(),
        2 => format!("X-Penguin-PSK: {}\r\n", &key[..key.len() - 2]),
        3 => format!("X-Penguin-PSK: {}\r\n", key.to_ascii_uppercase()),
        4 => format!("X-Penguin-PSK: {key}x\r\n"),
        5 => format!("X-Penguin-PSK: {}\r\n", OTHER_PSKS[kind]),
        _ => format!("X-Penguin-PSK: {}\r\n", OTHER_PSKS[1 - kind]),
    };
    s += "Content-Length: 0\r\n\r\n";
    s
}

#[derive(Debug, PartialEq)]
pub enum Expect {
    Upgrade,
    NoUpgrade,
    /// the statement does not determine this cell (empty key, duplicated header): either is fine,
    /// but a refusal must still be indistinguishable from the twin
    Either,
}
/// Reference predicate, written from the statement of C14.
pub fn expect(p: &C14Plan) -> Expect {
    let hdr_ok = |v: u8| matches!(v % N_HVAR, 0 | 1);
    let hdr_undetermined = |v: u8| v % N_HVAR == 5;
    let basic = METHODS[(p.method as usize) % 4] == "GET" && PATHS[(p.path as usize) % 6] == "/ws";
    let psk_ok = !p.psk_on || p.psk % N_PSK == 0;
    if !basic || !psk_ok {
        return Expect::NoUpgrade;
    }
    // Sec-WebSocket-Key: "a Sec-WebSocket-Key": present = variants 0,1,2 (same value); empty / duplicated undetermined
    let key_state = match p.hv[4] % N_HVAR {
        0..=2 => 1,
        3 => 0,
        _ => 2,
    };
    let mut undetermined = key_state == 2;
    let mut ok = key_state != 0;
    for v in &p.hv[..4] {
        if hdr_undetermined(*v) {
            undetermined = true;
        } else if !hdr_ok(*v) {
            ok = false;
        }
    }
    // Sec-WebSocket-Version has no letters: the "near-miss" (12) is wrong, "case-changed" is the same
    if !ok {
        Expect::NoUpgrade
    } else if undetermined || p.http10 {
        Expect::Either
    } else {
        Expect::Upgrade
    }
}

#[derive(Debug, Clone, Default)]
struct Resp {
    status: String,
    headers: Vec<(String, String)>,
    body: Vec<u8>,
    err: Option<String>,
}
impl Resp {
    fn get(&self, name: &str) -> Option<&str> {
        self.headers.iter().find(|(k, _)| k == name).map(|(_, v)| v.as_str())
    }
    /// what an observer can compare: status, headers except `date`, body
    fn observable(&self) -> (String, Vec<(String, String)>, Vec<u8>) {
        let mut h: Vec<(String, String)> = self.headers.iter().filter(|(k, _)| k != "date").cloned().collect();
        h.sort();
        (self.status.clone(), h, self.body.clone())
    }
}

async fn send_fragmented(s: &mut TcpStream, req: &[u8], frags: &[usize], delay_ms: u64) -> Result<(), String> {
    let mut off = 0;
    let mut i = 0;
    while off < req.len() {
        let n = if frags.is_empty() { req.len() } else { frags[i % frags.len()].max(1) };
        i += 1;
        let end = (off + n).min(req.len());
        s.write_all(&req[off..end]).await.map_err(|e| e.to_string())?;
        off = end;
        if off < req.len() && delay_ms > 0 {
            tokio::time::sleep(ms(delay_ms)).await;
        }
    }
    Ok(())
}
async fn read_response(s: &mut TcpStream, head_request: bool) -> Resp {
    let mut r = Resp::default();
    let mut head = vec![];
    let mut b = [0u8; 1];
    let fut = async {
        while !head.ends_with(b"\r\n\r\n") {
            match s.read(&mut b).await {
                Ok(0) => return Err(format!("connection closed after {} bytes of the response head", head.len())),
                Ok(_) => head.push(b[0]),
                Err(e) => return Err(e.to_string()),
            }
            if head.len() > 16_384 {
                return Err("response head too long".into());
            }
        }
        Ok(())
    };
    match tokio::time::timeout(std::time::Duration::from_secs(30), fut).await {
        Err(_) => {
            r.err = Some("no response within 30 s".into());
            return r;
        }
        Ok(Err(e)) => {
            r.err = Some(e);
            return r;
        }
        Ok(Ok(())) => {}
    }
    let text = String::from_utf8_lossy(&head).to_string();
    let mut lines = text.split("\r\n");
    r.status = lines.next().unwrap_or("").to_string();
    for l in lines {
        if let Some((k, v)) = l.split_once(':') {
            r.headers.push((k.trim().to_ascii_lowercase(), v.trim().to_string()));
        }
    }
    let code: u16 = r.status.split(' ').nth(1).and_then(|c| c.parse().ok()).unwrap_or(0);
    if !head_request && code != 101 && code != 204 && code != 304 {
        if let Some(n) = r.get("content-length").and_then(|v| v.parse::<usize>().ok()) {
            let mut body = vec![0u8; n];
            if let Err(e) = tokio::time::timeout(std::time::Duration::from_secs(30), s.read_exact(&mut body)).await.map_err(|_| "timeout".to_string()).and_then(|x| x.map_err(|e| e.to_string())) {
                r.err = Some(format!("body: {e}"));
            }
            r.body = body;
        }
    }
    r
}

pub fn run(plan: &C14Plan, sched: &Sched) -> Outcome {
    let seed = match sched {
        Sched::Seeded(s) => *s,
        Sched::Recorded(_) => 1,
    };
    let p = plan.clone();
    let (main, twin, tunnel, digest, events, t_end, backend_saw) = run_world(seed, &plan.net, move || async move {
        // the backend: a raw HTTP/1.1 server that answers every request alike and records what it was asked
        let backend_saw: std::sync::Arc<std::sync::Mutex<Vec<String>>> = Default::default();
        if p.backend % 3 == 1 {
            let bl = TcpListener::bind("127.0.0.1:8000").await.expect("bind backend");
            let saw = backend_saw.clone();
            tokio::spawn(async move {
                loop {
                    let Ok((mut s, _)) = bl.accept().await else { break };
                    let saw = saw.clone();
                    tokio::spawn(async move {
                        loop {
                            let mut head = vec![];
                            let mut b = [0u8; 1];
                            while !head.ends_with(b"\r\n\r\n") {
                                match s.read(&mut b).await {
                                    Ok(0) | Err(_) => return,
                                    Ok(_) => head.push(b[0]),
                                }
                                if head.len() > 16_384 {
                                    return;
                                }
                            }
                            let text = String::from_utf8_lossy(&head).to_string();
                            let first = text.split("\r\n").next().unwrap_or("").to_string();
                            let is_head = first.starts_with("HEAD ");
                            saw.lock().unwrap().push(first);
                            let body = "hello from the backend";
                            // the answer depends on every header line the backend was sent (a site that
                            // speaks WebSocket itself answers an Upgrade differently from a plain GET): a
                            // refused request to a gated path must reach it exactly like the twin's
                            let mut lines: Vec<&str> = text.split("\r\n").skip(1).filter(|l| !l.is_empty()).collect();
                            lines.sort_unstable();
                            let mut h = 0xcbf2_9ce4_8422_2325u64;
                            for b in lines.join("\n").bytes() {
                                h = (h ^ b as u64).wrapping_mul(0x1000_0000_01b3);
                            }
                            let resp = format!("HTTP/1.1 200 OK\r\ncontent-length: {}\r\ncontent-type: text/plain\r\nx-served-by: backend\r\nx-request-headers-seen: {h:016x}\r\n\r\n{}", body.len(), if is_head { "" } else { body });
                            if s.write_all(resp.as_bytes()).await.is_err() {
                                return;
                            }
                        }
                    });
                }
            });
        }
        // target for the tunnel test
        let target = TcpListener::bind("127.0.0.1:9000").await.expect("bind target");
        tokio::spawn(async move {
            loop {
                let Ok((mut s, _)) = target.accept().await else { break };
                tokio::spawn(async move {
                    let mut buf = vec![0u8; 1024];
                    loop {
                        match s.read(&mut buf).await {
                            Ok(0) | Err(_) => break,
                            Ok(n) => {
                                if s.write_all(&buf[..n]).await.is_err() {
                                    break;
                                }
                            }
                        }
                    }
                });
            }
        });
        static PSK_HV: std::sync::OnceLock<[http::HeaderValue; 2]> = std::sync::OnceLock::new();
        let psk: Option<&'static http::HeaderValue> = if p.psk_on { Some(&PSK_HV.get_or_init(|| [http::HeaderValue::from_str(PSKS[0]).expect("key"), http::HeaderValue::from_str(PSKS[1]).expect("key")])[(p.psk_kind % 2) as usize]) } else { None };
        static BACKEND: std::sync::OnceLock<rusty_penguin_lib::arg::BackendUrl> = std::sync::OnceLock::new();
        let backend = if p.backend % 3 == 0 { None } else { Some(BACKEND.get_or_init(|| std::str::FromStr::from_str("http://127.0.0.1:8000").expect("backend url"))) };
        let state = State::new().await.expect("state").with_not_found_resp("nothing to see here").with_ws_psk(psk).obfs(p.obfs).with_backend(backend);
        let sl = TcpListener::bind("127.0.0.1:8080").await.expect("bind server");
        tokio::spawn(run_listener(sl, None, state));
        let path = PATHS[(p.path as usize) % 6];
        let is_head = METHODS[(p.method as usize) % 4] == "HEAD";
        // ---- the request itself
        let req = build_request(&p, path);
        let mut s = TcpStream::connect("127.0.0.1:8080").await.expect("connect");
        let sent = send_fragmented(&mut s, req.as_bytes(), &p.frags, p.frag_delay_ms).await;
        let mut main = read_response(&mut s, is_head).await;
        if let Err(e) = sent {
            main.err.get_or_insert(e);
        }
        // ---- a tunnel really starts
        let mut tunnel = None;
        if main.status.contains(" 101 ") && p.try_tunnel {
            let ws = tokio_tungstenite::WebSocketStream::from_raw_socket(s, tokio_tungstenite::tungstenite::protocol::Role::Client, None).await;
            let mux = penguin_mux::Multiplexor::new(ws);
            let r = tokio::time::timeout(std::time::Duration::from_secs(30), async {
                let mut st = mux.new_stream_channel(b"127.0.0.1", 9000).await.map_err(|e| format!("{e:?}"))?;
                st.write_all(b"through the tunnel").await.map_err(|e| e.to_string())?;
                let mut back = [0u8; 18];
                st.read_exact(&mut back).await.map_err(|e| e.to_string())?;
                if &back == b"through the tunnel" { Ok(()) } else { Err("echo mismatch".to_string()) }
            })
            .await;
            tunnel = Some(match r {
                Ok(x) => x,
                Err(_) => Err("no echo through the upgraded connection within 30 s".into()),
            });
        } else {
            drop(s);
        }
        // ---- the twin: the same request on an unknown path
        let req2 = build_request(&p, "/no-such-path");
        let mut s2 = TcpStream::connect("127.0.0.1:8080").await.expect("connect");
        let sent2 = send_fragmented(&mut s2, req2.as_bytes(), &p.frags, p.frag_delay_ms).await;
        let mut twin = read_response(&mut s2, is_head).await;
        if let Err(e) = sent2 {
            twin.err.get_or_insert(e);
        }
        let (digest, events) = world_digest();
        dump_log();
        let saw = backend_saw.lock().unwrap().clone();
        (main, twin, tunnel, digest, events, now(), saw)
    });
    let mut o = Outcome { digest: digest ^ events, steps: events, sim_ms: t_end.as_millis() as u64, ..Default::default() };
    let exp = expect(plan);
    let path = PATHS[(plan.path as usize) % 6];
    let desc = format!(
        "{} {} (PSK configured: {}{}, obfs: {}, backend: {}), header variants [Connection, Upgrade, Version, Protocol, Key] = {:?} (0 exact, 1 case-changed, 2 near-miss, 3 absent, 4 empty, 5 duplicated, 6 list containing it), PSK header variant {} (0 equal, 1 absent, 2 prefix, 3 case, 4 padded, 5 another key, 6 a key over the other alphabet), fragments {:?} every {} ms -> {:?} / {:?}",
        METHODS[(plan.method as usize) % 4],
        path,
        plan.psk_on,
        if plan.psk_on && plan.psk_kind % 2 == 1 { " with a key containing octets >= 0x80" } else { "" },
        plan.obfs,
        ["none", "up", "configured but down"][(plan.backend % 3) as usize],
        plan.hv,
        plan.psk % N_PSK,
        plan.frags,
        plan.frag_delay_ms,
        main.status,
        main.err
    );
    o.note = desc.clone();
    let upgraded = main.status.contains(" 101 ");
    let same_as_twin = main.observable() == twin.observable() && main.err.is_none() && twin.err.is_none();
    if twin.status.contains(" 101 ") {
        o.violate("C14:upgrade-on-unknown-path", format!("a request to an unknown path was answered 101; {desc}"));
    }
    match (exp, upgraded) {
        (Expect::Upgrade, false) => o.violate("C14:valid-refused", format!("a fully valid, authenticated upgrade request was not answered 101; {desc}")),
        (Expect::NoUpgrade, true) => o.violate("C14:invalid-upgraded", format!("the server answered 101 to a request that is not a fully valid, authenticated upgrade request; {desc}")),
        _ => {}
    }
    if upgraded {
        let want = base64::engine::general_purpose::STANDARD.encode(Sha1::digest(format!("{KEY}258EAFA5-E914-47DA-95CA-C5AB0DC85B11").as_bytes()));
        let key_present = matches!(plan.hv[4] % N_HVAR, 0 | 1 | 2 | 5);
        if main.get("sec-websocket-protocol") != Some("penguin-v7") {
            o.violate("C14:101-protocol", format!("the 101 response carries sec-websocket-protocol {:?}; {desc}", main.get("sec-websocket-protocol")));
        }
        if key_present && main.get("sec-websocket-accept") != Some(want.as_str()) {
            o.violate("C14:101-accept", format!("the 101 response carries sec-websocket-accept {:?}, RFC 6455 gives {want}; {desc}", main.get("sec-websocket-accept")));
        }
        if let Some(Err(e)) = &tunnel {
            o.violate("C14:no-tunnel", format!("101 was answered but no tunnel started: {e}; {desc}"));
        }
        if let Some(Ok(())) = &tunnel {
            o.probe("tunnel-started-after-101", 1);
        }
        o.probe("answered-101", 1);
    } else {
        // every other request: exactly the response of the same request on an unknown path
        let gated = path == "/ws" || (plan.obfs && (path == "/health" || path == "/version"));
        if gated && !same_as_twin {
            o.violate("C14:distinguishable", format!("the refusal differs from what the same request gets on an unknown path: {:?} vs {:?}; {desc}", main.observable(), twin.observable()));
        }
        if gated {
            o.probe("refusal-compared-with-twin", 1);
        }
        // with a backend, "the response of an unknown path" is the backend's answer to this very request
        if gated && plan.backend % 3 == 1 {
            let m = METHODS[(plan.method as usize) % 4];
            let want_main = format!("{m} {path} HTTP/1.1");
            let want_twin = format!("{m} /no-such-path HTTP/1.1");
            // (what version the proxy speaks to the backend for an HTTP/1.0 request is its own business)
            let saw = |want: &str| backend_saw.contains(&want.to_string()) || (plan.http10 && backend_saw.contains(&want.replace("HTTP/1.1", "HTTP/1.0")));
            if !saw(&want_main) || !saw(&want_twin) {
                o.violate("C14:backend-request-mismatch", format!("a refused request to a gated path must be handled like one to an unknown path, i.e. forwarded to the backend unchanged; the backend saw {backend_saw:?}; {desc}"));
            }
            if main.get("x-served-by") != Some("backend") {
                o.violate("C14:not-served-by-backend", format!("the refusal did not come from the configured backend: {:?}; {desc}", main.observable()));
            }
            o.probe("refusal-served-by-backend", 1);
        }
        if gated && plan.backend % 3 == 2 {
            o.probe("backend-down-falls-back-to-404", 1);
        }
        if main.err.is_some() && path != "/health" && path != "/version" {
            o.probe("response-problem", 1);
        }
    }
    if !plan.frags.is_empty() && plan.frags.iter().any(|f| *f == 1) {
        o.probe("one-byte-fragments", 1);
    }
    if plan.obfs && (path == "/health" || path == "/version") {
        o.probe("obfs-health-or-version", 1);
    }
    o.nontrivial = true;
    o
}

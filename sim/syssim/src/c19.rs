//! C19: the real client (`client_main_inner`: retry loop, back-off, `on_connected`, listeners) against
//! a scripted server that plays one behaviour per connection attempt, under the paused clock.

use crate::common::*;
use penguin_simnet::{TcpListener, TcpStream, UdpSocket};
use rusty_penguin_lib::server::{State, run_listener};
use serde::{Deserialize, Serialize};
use simcore::{Outcome, Sched};
use std::cell::RefCell;
use std::rc::Rc;
use std::time::Duration;
use tokio::io::{AsyncReadExt, AsyncWriteExt};
use tokio_tungstenite::tungstenite::handshake::server::{Request, Response};

#[derive(Serialize, Deserialize, Clone, Debug, PartialEq)]
pub enum Beh {
    /// nobody listens
    Refuse,
    /// accept the TCP connection, never answer the upgrade
    Stall,
    /// answer the upgrade with a non-retryable HTTP status
    NonRetryable,
    /// complete the handshake, run a multiplexor, drop it after d ms (orderly WebSocket Close)
    CloseAfter(u64),
    /// complete the handshake, abort the TCP connection after d ms
    ResetAfter(u64),
    /// complete the handshake, then neither read nor answer (stream requests time out)
    Ignore,
    /// complete the handshake, read everything but answer no stream request, send a WebSocket Close
    /// after d ms: a request made meanwhile is in flight when the connection is lost
    SilentClose(u64),
    /// the same, but the TCP connection is aborted after d ms
    SilentReset(u64),
    /// the real server, healthy for the rest of the run
    Healthy,
    /// complete the handshake, run a live multiplexor (which answers Pings and acknowledges stream
    /// requests) for d ms, then the path dies without a word (`blackhole_conn`): nothing is
    /// delivered in either direction any more, nothing fails. Only the client's keepalive (or a
    /// stream request timing out) can tell.
    GoSilent(u64),
}
#[derive(Serialize, Deserialize, Clone, Debug)]
pub struct Local {
    /// the local client connects `delay_ms` after phase `phase` began (its attempt was seen)
    pub phase: usize,
    pub delay_ms: u64,
    pub nbytes: usize,
    /// whether the oracle demands that this connection is served (false for connections that only
    /// exist to make a stream request time out before a phase that serves-then-cuts)
    #[serde(default)]
    pub expect_served: bool,
    /// which fixed TCP remote of the client it connects to: 0 = port 7000, k > 0 = port 7200 + k
    /// (a remote serves one pending connection at a time, so a crowd of waiting requests needs
    /// as many remotes)
    #[serde(default)]
    pub remote: u16,
}
#[derive(Serialize, Deserialize, Clone, Debug)]
pub struct C19Plan {
    pub script: Vec<Beh>,
    pub max_count: u32,
    pub max_iv: u64,
    pub hs_to_s: u64,
    pub ch_to_s: u64,
    pub locals: Vec<Local>,
    /// the client's keepalive interval and timeout in ms (0 = none), timed on the simulated clock
    #[serde(default)]
    pub keepalive_ms: [u64; 2],
    /// a local UDP client sends this many datagrams to a UDP remote right at the start - while the
    /// tunnel is down if the script begins that way (the client's queue towards its main loop has
    /// 64 slots) - and, once the healthy server is there, goes on sending until one is answered
    #[serde(default)]
    pub udp_down: usize,
}

#[derive(Clone, Debug)]
struct Rec {
    at: Duration,
    fail: Option<Duration>,
    completed: bool,
    /// GoSilent: when the path died
    silent_from: Option<Duration>,
}
const PORT: u16 = 8080;

fn ws_cb(_req: &Request, mut resp: Response) -> Result<Response, tokio_tungstenite::tungstenite::handshake::server::ErrorResponse> {
    resp.headers_mut().insert("sec-websocket-protocol", "penguin-v7".parse().expect("hv"));
    Ok(resp)
}

/// wait until attempt number `seen` to the server port shows up; None = it never came
async fn next_attempt(seen: usize, patience: Duration) -> Option<(Duration, bool, u64)> {
    let wait = async {
        loop {
            let a = attempts_to(PORT);
            if a.len() > seen {
                return a[seen];
            }
            let total = penguin_simnet::with(|w| w.connects.len());
            penguin_simnet::connect_attempts_exceed(total).await;
        }
    };
    tokio::time::timeout(patience, wait).await.ok()
}

pub fn run(plan: &C19Plan, sched: &Sched) -> Outcome {
    let seed = match sched {
        Sched::Seeded(s) => *s,
        Sched::Recorded(_) => 1,
    };
    let net = NetPlan::default();
    let plan2 = plan.clone();
    let mut handle: Option<ClientHandle> = None;
    let hslot: *mut Option<ClientHandle> = &mut handle;
    let (recs, cres, attempts, locals, arrivals, missing, digest, events, counters, horizon) = run_world(seed, &net, move || async move {
        let plan = plan2;
        // the target behind the healthy server: echo
        let target = TcpListener::bind("127.0.0.1:9000").await.expect("bind target");
        tokio::spawn(async move {
            loop {
                let Ok((mut s, _)) = target.accept().await else { break };
                tokio::spawn(async move {
                    let mut buf = vec![0u8; 4096];
                    loop {
                        match s.read(&mut buf).await {
                            Ok(0) | Err(_) => break,
                            Ok(n) => {
                                if s.write_all(&buf[..n]).await.is_err() {
                                    break;
                                }
                            }
                        }
                    }
                    s.shutdown().await.ok();
                });
            }
        });
        let local_results: Rc<RefCell<Vec<(usize, Duration, String)>>> = Default::default();
        let arrivals: Rc<RefCell<Vec<(usize, Duration)>>> = Default::default();
        let hs_to = Duration::from_secs(plan.hs_to_s.max(1));
        let patience = ms(plan.max_iv.max(200)) + hs_to + Duration::from_secs(plan.ch_to_s) + Duration::from_secs(30);
        let plan3 = plan.clone();
        let lr = local_results.clone();
        let arr = arrivals.clone();
        let ls = tokio::task::LocalSet::new();
        let out = ls
            .run_until(async move {
                let plan = plan3;
                // start locals of a phase
                let start_locals = |phase: usize| {
                    for (i, l) in plan.locals.iter().enumerate() {
                        if l.phase != phase {
                            continue;
                        }
                        let (l, lr, arr) = (l.clone(), lr.clone(), arr.clone());
                        tokio::task::spawn_local(async move {
                            tokio::time::sleep(ms(l.delay_ms)).await;
                            let t = now();
                            arr.borrow_mut().push((i, t));
                            let r = async {
                                let mut c = TcpStream::connect(if l.remote == 0 { "127.0.0.1:7000".to_string() } else { format!("127.0.0.1:{}", 7200 + l.remote) }).await.map_err(|e| format!("local listener refused the connection: {e}"))?;
                                let data: Vec<u8> = (0..l.nbytes as u64).map(|j| pbyte(i, 0, j)).collect();
                                c.write_all(&data).await.map_err(|e| format!("write: {e}"))?;
                                c.shutdown().await.map_err(|e| format!("shutdown: {e}"))?;
                                let mut v = vec![];
                                c.read_to_end(&mut v).await.map_err(|e| format!("read: {e}"))?;
                                if v == data { Ok(()) } else { Err(format!("echo mismatch: got {} of {} bytes", v.len(), data.len())) }
                            }
                            .await;
                            lr.borrow_mut().push((i, t, match r {
                                Ok(()) => "served".to_string(),
                                Err(e) => e,
                            }));
                        });
                    }
                };
                let healthy_flag: Rc<std::cell::Cell<bool>> = Default::default();
                if plan.udp_down > 0 {
                    let echo = UdpSocket::bind("127.0.0.1:9100").await.expect("udp target");
                    tokio::task::spawn_local(async move {
                        let mut b = vec![0u8; 2048];
                        loop {
                            let Ok((n, from)) = echo.recv_from(&mut b).await else { break };
                            echo.send_to(&b[..n], from).await.ok();
                        }
                    });
                    let (n_down, hf, lr) = (plan.udp_down, healthy_flag.clone(), lr.clone());
                    tokio::task::spawn_local(async move {
                        let remote: std::net::SocketAddr = "127.0.0.1:7100".parse().expect("addr");
                        let sock = UdpSocket::bind("127.0.0.1:0").await.expect("local udp");
                        tokio::time::sleep(ms(3)).await;
                        for k in 0..n_down {
                            sock.send_to(format!("down-{k}").as_bytes(), remote).await.ok();
                            tokio::time::sleep(ms(1)).await;
                        }
                        while !hf.get() {
                            tokio::time::sleep(ms(50)).await;
                        }
                        let t = now();
                        let mut buf = vec![0u8; 2048];
                        let mut served = false;
                        'probe: for k in 0..60 {
                            let msg = format!("after-{k}");
                            sock.send_to(msg.as_bytes(), remote).await.ok();
                            let deadline = tokio::time::sleep(ms(250));
                            tokio::pin!(deadline);
                            loop {
                                tokio::select! {
                                    () = &mut deadline => break,
                                    r = sock.recv_from(&mut buf) => {
                                        if let Ok((n, from)) = r {
                                            if buf[..n].starts_with(b"after-") && from == remote {
                                                served = true;
                                                break 'probe;
                                            }
                                        }
                                    }
                                }
                            }
                        }
                        lr.borrow_mut().push((usize::MAX, t, if served { "udp served" } else { "udp not served" }.to_string()));
                    });
                }
                let mut recs: Vec<Rec> = vec![];
                let mut missing = None;
                // the scripted server must be in place before the client's first attempt
                tokio::time::sleep(ms(1)).await;
                let client = spawn_client(&ClientCfg { server: format!("ws://127.0.0.1:{PORT}/ws"), remotes: {
                    let mut v: Vec<String> = if plan.udp_down > 0 { vec!["127.0.0.1:7000:127.0.0.1:9000".into(), "127.0.0.1:7100:127.0.0.1:9100/udp".into()] } else { vec!["127.0.0.1:7000:127.0.0.1:9000".into()] };
                    for k in 1..=plan.locals.iter().map(|l| l.remote).max().unwrap_or(0) {
                        v.push(format!("127.0.0.1:{}:127.0.0.1:9000", 7200 + k));
                    }
                    v
                }, max_retry_count: plan.max_count, max_retry_interval: plan.max_iv, handshake_timeout_s: plan.hs_to_s, channel_timeout_s: plan.ch_to_s, psk: None, keepalive_ms: plan.keepalive_ms });
                let mut seen = 0usize;
                let mut held: Vec<Box<dyn std::any::Any>> = vec![];
                'script: for (phase, b) in plan.script.iter().enumerate() {
                    if client.task.is_finished() {
                        break;
                    }
                    let listener = if *b == Beh::Refuse { None } else { Some(TcpListener::bind(("127.0.0.1", PORT)).await.expect("bind server port")) };
                    let Some((at, ok, conn)) = next_attempt(seen, patience).await else {
                        missing = Some(phase);
                        break 'script;
                    };
                    seen += 1;
                    start_locals(phase);
                    let _ = ok;
                    match b {
                        Beh::Refuse => recs.push(Rec { at, fail: Some(at), completed: false, silent_from: None }),
                        Beh::Stall => {
                            let l = listener.expect("listener");
                            let (s, _) = l.accept().await.expect("accept");
                            drop(l);
                            recs.push(Rec { at, fail: Some(at + hs_to), completed: false, silent_from: None });
                            // keep the socket open past the client's handshake timeout
                            tokio::time::sleep(hs_to + ms(1)).await;
                            drop(s);
                        }
                        Beh::NonRetryable => {
                            let l = listener.expect("listener");
                            let (mut s, _) = l.accept().await.expect("accept");
                            drop(l);
                            let mut buf = vec![0u8; 4096];
                            let mut got: Vec<u8> = vec![];
                            while !got.windows(4).any(|w| w == b"\r\n\r\n") {
                                match s.read(&mut buf).await {
                                    Ok(0) | Err(_) => break,
                                    Ok(n) => got.extend(&buf[..n]),
                                }
                            }
                            s.write_all(b"HTTP/1.1 403 Forbidden\r\ncontent-length: 0\r\n\r\n").await.ok();
                            recs.push(Rec { at, fail: Some(now()), completed: false, silent_from: None });
                            tokio::time::sleep(ms(5)).await;
                            held.push(Box::new(s));
                        }
                        Beh::CloseAfter(d) | Beh::ResetAfter(d) => {
                            let l = listener.expect("listener");
                            let (s, _) = l.accept().await.expect("accept");
                            drop(l);
                            let ws = tokio_tungstenite::accept_hdr_async(s, ws_cb).await.expect("ws accept");
                            if matches!(b, Beh::CloseAfter(_)) {
                                let mux = penguin_mux::Multiplexor::new(ws);
                                tokio::time::sleep(ms(*d)).await;
                                let ft = now();
                                drop(mux);
                                recs.push(Rec { at, fail: Some(ft), completed: true, silent_from: None });
                                // let the Close exchange finish
                                tokio::time::sleep(ms(1)).await;
                            } else {
                                // a live multiplexor answers stream requests until the TCP connection is aborted
                                let mux = penguin_mux::Multiplexor::new(ws);
                                tokio::time::sleep(ms(*d)).await;
                                let ft = now();
                                penguin_simnet::with(|w| w.reset_conn(conn));
                                recs.push(Rec { at, fail: Some(ft), completed: true, silent_from: None });
                                tokio::time::sleep(ms(1)).await;
                                drop(mux);
                            }
                        }
                        Beh::SilentClose(d) | Beh::SilentReset(d) => {
                            use futures_util::{SinkExt, StreamExt};
                            let l = listener.expect("listener");
                            let (s, _) = l.accept().await.expect("accept");
                            drop(l);
                            let mut ws = tokio_tungstenite::accept_hdr_async(s, ws_cb).await.expect("ws accept");
                            let deadline = tokio::time::sleep(ms(*d));
                            tokio::pin!(deadline);
                            let mut gone = false;
                            loop {
                                tokio::select! {
                                    biased;
                                    () = &mut deadline => break,
                                    m = ws.next() => {
                                        if !matches!(m, Some(Ok(_))) {
                                            gone = true;
                                            break;
                                        }
                                    }
                                }
                            }
                            let ft = now();
                            if gone {
                                // the client let go first (nothing this script intends): nothing more to judge
                                recs.push(Rec { at, fail: None, completed: true, silent_from: None });
                                break 'script;
                            }
                            if matches!(b, Beh::SilentClose(_)) {
                                ws.send(tokio_tungstenite::tungstenite::Message::Close(None)).await.ok();
                                recs.push(Rec { at, fail: Some(ft), completed: true, silent_from: None });
                                // let the Close exchange finish
                                let _ = tokio::time::timeout(ms(1), async { while let Some(Ok(_)) = ws.next().await {} }).await;
                            } else {
                                penguin_simnet::with(|w| w.reset_conn(conn));
                                recs.push(Rec { at, fail: Some(ft), completed: true, silent_from: None });
                                tokio::time::sleep(ms(1)).await;
                            }
                            drop(ws);
                        }
                        Beh::Ignore => {
                            let l = listener.expect("listener");
                            let (s, _) = l.accept().await.expect("accept");
                            drop(l);
                            let ws = tokio_tungstenite::accept_hdr_async(s, ws_cb).await.expect("ws accept");
                            // neither read nor answer; the failure is the moment the client gives the connection up
                            let mut raw = ws.into_inner();
                            let mut buf = vec![0u8; 4096];
                            let res = tokio::time::timeout(Duration::from_secs(plan.ch_to_s) + patience, async {
                                loop {
                                    match raw.read(&mut buf).await {
                                        Ok(0) | Err(_) => break,
                                        Ok(_) => {}
                                    }
                                }
                            })
                            .await;
                            if res.is_err() {
                                // the client never let go (no stream request was pending): nothing more to judge
                                recs.push(Rec { at, fail: None, completed: true, silent_from: None });
                                held.push(Box::new(raw));
                                break 'script;
                            }
                            recs.push(Rec { at, fail: Some(now()), completed: true, silent_from: None });
                        }
                        Beh::GoSilent(d) => {
                            let l = listener.expect("listener");
                            let (s, _) = l.accept().await.expect("accept");
                            drop(l);
                            let ws = tokio_tungstenite::accept_hdr_async(s, ws_cb).await.expect("ws accept");
                            let mux = penguin_mux::Multiplexor::new(ws);
                            tokio::time::sleep(ms(*d)).await;
                            let sf = now();
                            penguin_simnet::with(|w| w.blackhole_conn(conn));
                            // the failure is the moment the client lets go of its socket
                            let limit = sf + ms(plan.keepalive_ms[0] + plan.keepalive_ms[1].max(plan.keepalive_ms[0])) + Duration::from_secs(plan.ch_to_s) + patience;
                            let gave_up = loop {
                                if let Some(t) = penguin_simnet::with(|w| w.drops.iter().find(|x| x.0 == conn).map(|x| x.1)) {
                                    break Some(t);
                                }
                                if now() > limit {
                                    break None;
                                }
                                tokio::time::sleep(ms(5)).await;
                            };
                            held.push(Box::new(mux));
                            match gave_up {
                                Some(ft) => recs.push(Rec { at, fail: Some(ft), completed: true, silent_from: Some(sf) }),
                                None => {
                                    // the client never let go (no keepalive timeout configured, nothing outstanding): nothing more to judge
                                    recs.push(Rec { at, fail: None, completed: true, silent_from: Some(sf) });
                                    break 'script;
                                }
                            }
                        }
                        Beh::Healthy => {
                            let l = listener.expect("listener");
                            let state = State::new().await.expect("state");
                            tokio::spawn(run_listener(l, None, state));
                            recs.push(Rec { at, fail: None, completed: true, silent_from: None });
                            healthy_flag.set(true);
                            // serve what is parked and what still arrives
                            tokio::time::sleep(Duration::from_secs(120)).await;
                            break 'script;
                        }
                    }
                }
                // give a last retry the chance to show up (an attempt after the script's end is only
                // judged if we waited for it)
                let extra = next_attempt(seen, patience).await;
                tokio::time::sleep(ms(50)).await;
                let finished = client.task.is_finished();
                (recs, client, finished, missing, extra.is_some())
            })
            .await;
        let (recs, mut client, finished, missing, _extra) = out;
        let cres = if finished {
            use futures_util::FutureExt;
            Some(match (&mut client.task).now_or_never() {
                Some(Ok(r)) => format!("{r:?}"),
                Some(Err(e)) => format!("client task panicked: {e}"),
                None => "finished".into(),
            })
        } else {
            None
        };
        let attempts = attempts_to(PORT);
        let (digest, events) = world_digest();
        let counters = world_counters();
        let locals = local_results.borrow().clone();
        let arrivals = arrivals.borrow().clone();
        let horizon = now();
        dump_log();
        // SAFETY: written once, read after the runtime is gone
        unsafe { *hslot = Some(client) };
        (recs, cres, attempts, locals, arrivals, missing, digest, events, counters, horizon)
    });
    if let Some(h) = handle.take() {
        // SAFETY: the runtime was dropped inside `run_world`
        unsafe { h.reclaim() };
    }
    judge(plan, recs, cres, attempts, locals, arrivals, missing, digest, events, counters, horizon)
}

#[allow(clippy::too_many_arguments)]
fn judge(plan: &C19Plan, recs: Vec<Rec>, cres: Option<String>, attempts: Vec<(Duration, bool, u64)>, locals: Vec<(usize, Duration, String)>, arrivals: Vec<(usize, Duration)>, missing: Option<usize>, digest: u64, events: u64, counters: Vec<(String, u64)>, horizon: Duration) -> Outcome {
    let mut o = Outcome { digest: digest ^ events, steps: events, sim_ms: horizon.as_millis() as u64, ..Default::default() };
    for (k, v) in counters {
        if k.starts_with("tcp-re") || k == "tcp-blackhole" {
            o.probe(&format!("fault:{k}"), v);
        }
    }
    let desc = format!("script={:?} max_retry_count={} max_retry_interval={}ms handshake_timeout={}s channel_timeout={}s keepalive={:?}ms attempts={:?} client={cres:?}", plan.script, plan.max_count, plan.max_iv, plan.hs_to_s, plan.ch_to_s, plan.keepalive_ms, attempts.iter().map(|a| a.0).collect::<Vec<_>>());
    o.note = desc.clone();
    if cres.as_deref().is_some_and(|c| c.contains("panicked")) {
        o.violate("C19:client-panicked", format!("{desc}"));
        return o;
    }
    let mut c = 0u32;
    let mut served_upto = 0usize;
    let mut gave_up = false;
    let mut ended_nonretryable = false;
    for (i, r) in recs.iter().enumerate() {
        if attempts.get(i).map(|a| a.0) != Some(r.at) {
            o.violate("HARNESS:bookkeeping", format!("attempt {i} bookkeeping; {desc}"));
            return o;
        }
        // a connection that completed the handshake but ignores stream requests is lost exactly
        // channel_timeout after the first request became outstanding on it: at once if one was
        // parked or queued from earlier, else when the first local connection of this phase arrived
        if plan.script[i] == Beh::Ignore {
            let queued_before = arrivals.iter().any(|(li, t)| *t <= r.at && plan.locals.get(*li).is_some_and(|l| l.phase >= served_upto));
            let first_here = arrivals.iter().filter(|(_, t)| *t > r.at).map(|(_, t)| *t).min();
            let start = if queued_before { Some(r.at) } else { first_here };
            if let Some(st) = start {
                let want = st + Duration::from_secs(plan.ch_to_s);
                match r.fail {
                    Some(ft) if ft == want => o.probe("stream-request-timeout-checked", 1),
                    Some(ft) if first_here.is_some_and(|f| f + Duration::from_secs(plan.ch_to_s) == ft) && !queued_before => o.probe("stream-request-timeout-checked", 1),
                    other => {
                        o.violate("C19:stream-request-timeout", format!("phase {i}: the server completed the handshake at {:?} and then ignored everything; a stream request was outstanding from {st:?}, so the connection should have been given up at {want:?} (channel_timeout {} s), observed: {other:?}; {desc}", r.at, plan.ch_to_s));
                    }
                }
            }
        } else if let (Beh::GoSilent(_), Some(sf)) = (&plan.script[i], r.silent_from) {
            // The path died at `sf`. No latency in this world: the client's task started at `r.at`, its
            // Pings leave at r.at + k I and are answered at once while the path lives. The keepalive
            // must give the connection up no earlier than T and no later than T + I after the last
            // Pong - unless a stream request made during the silence times out first.
            let (iv, t_req) = (plan.keepalive_ms[0], plan.keepalive_ms[1]);
            let in_flight: Option<Duration> = arrivals.iter().filter(|(li, t)| *t > sf && plan.locals.get(*li).is_some_and(|l| l.phase == i)).map(|(_, t)| *t).min();
            let req_to = in_flight.map(|a| a + Duration::from_secs(plan.ch_to_s));
            if in_flight.is_some() && r.fail.is_some() {
                o.probe("request-in-flight-at-loss", 1);
            }
            let window = if iv > 0 && t_req > 0 {
                let t = t_req.max(iv);
                let j = (sf.saturating_sub(r.at).as_millis() as u64) / iv;
                let lp = r.at + ms(j * iv);
                Some((lp + ms(t), lp + ms(t + iv)))
            } else {
                None
            };
            let ok = match (r.fail, window, req_to) {
                (None, None, None) => true,
                (None, _, _) => false,
                (Some(ft), Some((lo, hi)), None) => lo <= ft && ft <= hi,
                (Some(ft), None, Some(a)) => ft == a,
                (Some(ft), Some((lo, hi)), Some(a)) => (a < lo && ft == a) || (a >= lo && lo <= ft && ft <= hi.min(a)),
                (Some(_), None, None) => false,
            };
            if !ok {
                o.violate("C19:silent-peer-detection", format!("phase {i}: the path to the server died at {sf:?} (connection made at {:?}, keepalive interval {iv} ms, timeout {t_req} ms, stream request in flight from {in_flight:?}, channel timeout {} s): the connection should have been given up within {window:?} (keepalive) or at {req_to:?} (request timeout), observed: {:?}; {desc}", r.at, plan.ch_to_s, r.fail));
            } else if r.fail.is_some() && window.is_some_and(|(lo, _)| req_to.is_none_or(|a| a >= lo)) {
                o.probe("lost-by-keepalive-expiry", 1);
            }
            served_upto = i + 1;
        } else if matches!(plan.script[i], Beh::SilentClose(_) | Beh::SilentReset(_)) {
            // nothing was served: what was queued or in flight stays parked
            if arrivals.iter().any(|(li, t)| plan.locals.get(*li).is_some_and(|l| l.phase >= served_upto) && r.fail.is_some_and(|ft| *t < ft)) {
                o.probe("request-in-flight-at-loss", 1);
            }
        } else if r.completed {
            // a live multiplexor served whatever was queued
            served_upto = i + 1;
        }
        let Some(ft) = r.fail else { break };
        if plan.script[i] == Beh::NonRetryable {
            ended_nonretryable = true;
            o.probe("non-retryable-failure", 1);
            if cres.is_none() {
                o.violate("C19:nonretryable-not-fatal", format!("a non-retryable failure (HTTP 403 to the upgrade) did not end the client; {desc}"));
            }
            if attempts.len() > i + 1 {
                o.violate("C19:retry-after-nonretryable", format!("the client retried after a non-retryable failure; {desc}"));
            }
            break;
        }
        if r.completed {
            c = 0;
            o.probe("established-connection-lost", 1);
        }
        if plan.max_count != 0 && c >= plan.max_count {
            gave_up = true;
            o.probe("gave-up-after-max-retries", 1);
            if attempts.len() > i + 1 {
                o.violate("C19:retry-after-limit", format!("{} consecutive retries had failed (max_retry_count = {}) but the client tried again; {desc}", c, plan.max_count));
            }
            if !cres.as_deref().unwrap_or("").contains("MaxRetryCountReached") {
                o.violate("C19:no-give-up", format!("{} consecutive retries had failed (max_retry_count = {}) but the client did not return MaxRetryCountReached (client: {cres:?}); {desc}", c, plan.max_count));
            }
            break;
        }
        let delay = ms((200u64 << c.min(30)).min(plan.max_iv));
        if (200u64 << c.min(30)) >= plan.max_iv {
            o.probe("backoff-capped", 1);
        }
        c += 1;
        match attempts.get(i + 1) {
            Some(next) => {
                if next.0 != ft + delay {
                    o.violate("C19:backoff-delay", format!("attempt {} started at {:?}; failure {i} happened at {ft:?} and was consecutive failure #{c}, so the retry was due at {:?} (delay {delay:?}); {desc}", i + 1, next.0, ft + delay));
                }
                o.probe("retry-checked", 1);
            }
            None => {
                if missing == Some(i + 1) || (i + 1 == recs.len() && missing.is_none() && cres.is_none()) {
                    let kind = match plan.script[i] {
                        Beh::CloseAfter(_) | Beh::SilentClose(_) => "orderly-close",
                        Beh::ResetAfter(_) | Beh::SilentReset(_) => "reset",
                        Beh::GoSilent(_) => "silence",
                        _ => "failure",
                    };
                    o.violate(&format!("C19:no-reconnect-after-{kind}"), format!("after failure {i} ({:?}) at {ft:?} a retry was due at {:?} but the client made no further attempt (client: {cres:?}); {desc}", plan.script[i], ft + delay));
                } else if cres.is_some() && !gave_up {
                    o.violate("C19:gave-up-early", format!("the client ended ({cres:?}) after only {c} consecutive failure(s), max_retry_count = {}; {desc}", plan.max_count));
                }
            }
        }
    }
    if !gave_up && !ended_nonretryable && plan.script.last() == Some(&Beh::Healthy) && recs.len() == plan.script.len() && cres.is_some() {
        o.violate("C19:ended-while-healthy", format!("the client ended although the server is healthy: {cres:?}; {desc}"));
    }
    if plan.max_count == 0 && cres.as_deref().is_some_and(|c| c.contains("MaxRetryCountReached")) {
        o.violate("C19:gave-up-with-unlimited-retries", desc.clone());
    }
    // ---- local connections made while the tunnel was down / whose request timed out are served
    let healthy_reached = recs.len() == plan.script.len() && plan.script.last() == Some(&Beh::Healthy);
    for (i, l) in plan.locals.iter().enumerate() {
        if l.phase >= recs.len() {
            continue;
        }
        let res = locals.iter().find(|x| x.0 == i);
        match res {
            Some((_, _, r)) if r == "served" => o.probe("parked-local-connection-served", 1),
            Some((_, _, r)) if r.contains("refused") && (gave_up || ended_nonretryable || cres.is_some()) => {}
            Some((_, t, r)) if r.contains("refused") => o.violate("C19:listener-closed", format!("local connection {i} at {t:?}: {r} — local listeners must stay open throughout; {desc}")),
            other => {
                if healthy_reached && !gave_up && !ended_nonretryable && l.expect_served {
                    o.violate("C19:local-connection-dropped", format!("local connection {i} (made during phase {} = {:?}, while the tunnel was down or its request timed out) was not served by the next successful connection: {:?}; {desc}", l.phase, plan.script.get(l.phase), other.map(|x| &x.2)));
                }
            }
        }
    }
    // ---- the UDP remote: datagrams queued while the tunnel was down neither end the client nor
    //      wedge the remote: once the healthy server is there a datagram is answered
    if plan.udp_down > 0 && healthy_reached && !gave_up && !ended_nonretryable {
        match locals.iter().find(|x| x.0 == usize::MAX) {
            Some((_, _, r)) if r == "udp served" => {
                o.probe("udp-remote-served-after-reconnect", 1);
                if plan.udp_down > 64 && matches!(plan.script.first(), Some(Beh::Refuse | Beh::Stall)) {
                    o.probe("udp-backlog-beyond-the-queue-while-down", 1);
                }
            }
            other => o.violate("C19:udp-not-served-after-reconnect", format!("a local UDP client sent {} datagrams to the UDP remote from the start (tunnel down: {}), and once the healthy server was there no further datagram of it was answered within 15 s: {:?}; {desc}", plan.udp_down, matches!(plan.script.first(), Some(Beh::Refuse | Beh::Stall)), other.map(|x| &x.2))),
        }
    }
    o.nontrivial = recs.len() >= 2;
    o
}

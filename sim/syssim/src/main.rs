mod c01;
mod c14;
mod c19;
mod common;
#[path = "../../muxsim/src/exec.rs"]
#[allow(dead_code)]
mod exec;
#[path = "../../muxsim/src/link.rs"]
#[allow(dead_code)]
mod link;
#[path = "../../muxsim/src/refcodec.rs"]
#[allow(dead_code)]
mod refcodec;
mod wscontract;

use serde_json::Value;
use simcore::{Check, Family, Outcome, Prng, Sched, Tier};

pub struct C19Family;
impl Family for C19Family {
    fn name(&self) -> &'static str {
        "lifecycles"
    }
    fn runs(&self, tier: Tier) -> u64 {
        if tier == Tier::Quick { 150_000 } else { 3_000_000 }
    }
    fn generate(&self, batch_seed: u64, index: u64, _tier: Tier) -> (Value, u64) {
        use c19::*;
        let seed = simcore::prng::mix(batch_seed, "lifecycles", index);
        let mut r = Prng::new(seed);
        let r = &mut r;
        let n = 1 + r.below(6);
        let mut script: Vec<Beh> = (0..n)
            .map(|_| match r.below(8) {
                0 | 1 => Beh::Refuse,
                2 => Beh::Stall,
                3 => Beh::CloseAfter(50 + r.below(3000) as u64),
                4 => Beh::ResetAfter(50 + r.below(3000) as u64),
                5 => Beh::Ignore,
                // shorter than the smallest channel timeout: the loss, not a timeout, ends the phase
                6 => {
                    if r.chance(1, 2) {
                        Beh::SilentClose(50 + r.below(900) as u64)
                    } else {
                        Beh::SilentReset(50 + r.below(900) as u64)
                    }
                }
                _ => Beh::Refuse,
            })
            .collect();
        script.push(match r.below(6) {
            0 => Beh::NonRetryable,
            1 => Beh::Refuse,
            _ => Beh::Healthy,
        });
        let max_count = *r.pick(&[0u32, 1, 2, 3, 5]);
        let max_iv = *r.pick(&[100u64, 300, 1000, 10_000, 300_000]);
        // handshake timeout 0 = disabled (then a stalling server would hold the client forever: no Stall phases)
        let hs_to_s = if script.contains(&Beh::Stall) { *r.pick(&[1u64, 3]) } else { *r.pick(&[0u64, 1, 3]) };
        let ch_to_s = *r.pick(&[1u64, 2, 5]);
        // local connections: only in the trailing phases after the last phase that serves-then-cuts
        let first_ok = script.iter().rposition(|b| matches!(b, Beh::CloseAfter(_) | Beh::ResetAfter(_))).map(|i| i + 1).unwrap_or(0);
        let mut locals = vec![];
        let mut crowded = 0usize;
        for (i, b) in script.iter().enumerate() {
            if i < first_ok {
                continue;
            }
            let want = match b {
                Beh::Ignore => true, // needs a stream request to time out
                Beh::Refuse | Beh::Stall => r.chance(1, 3),
                Beh::Healthy => r.chance(1, 2),
                Beh::SilentClose(_) | Beh::SilentReset(_) => r.chance(2, 3),
                _ => false,
            };
            if want {
                // during a silent phase the request must be out before the connection is lost
                let lim = match b {
                    Beh::SilentClose(d) | Beh::SilentReset(d) => (*d as usize).min(150),
                    _ => 150,
                };
                locals.push(Local { phase: i, delay_ms: r.below(lim) as u64, nbytes: 1 + r.below(3000), expect_served: true, remote: 0 });
                // a crowd: more local connections waiting than the client's request queue (64) holds,
                // while one request is in flight when the connection is lost
                if matches!(b, Beh::SilentClose(_) | Beh::SilentReset(_) | Beh::Refuse | Beh::Stall) && r.chance(1, 5) {
                    if crowded == 0 {
                        crowded = *r.pick(&[40usize, 63, 64, 65, 66, 90]);
                        for k in 0..crowded {
                            // (not in the very instant the client starts: its listeners are bound one task at a time)
                            locals.push(Local { phase: i, delay_ms: 1 + r.below(lim.max(2) - 1) as u64, nbytes: 1 + r.below(200), expect_served: true, remote: 1 + k as u16 });
                        }
                    }
                }
            }
        }
        // an Ignore phase before `first_ok` would hang without a request: give it one anyway
        for (i, b) in script.iter().enumerate() {
            if *b == Beh::Ignore && i < first_ok {
                locals.push(Local { phase: i, delay_ms: r.below(50) as u64, nbytes: 10, expect_served: false, remote: 0 });
            }
        }
        let udp_down = if r.chance(1, 4) { *r.pick(&[10usize, 64, 65, 80, 200]) } else { 0 };
        (serde_json::to_value(C19Plan { script, max_count, max_iv, hs_to_s, ch_to_s, locals, keepalive_ms: [0, 0], udp_down }).expect("plan"), seed)
    }
    fn records_decisions(&self) -> bool {
        false
    }
    fn exec(&self, plan: &Value, sched: &Sched, _record: bool) -> Outcome {
        let Ok(plan) = serde_json::from_value::<c19::C19Plan>(plan.clone()) else { return Outcome::default() };
        c19::run(&plan, sched)
    }
    fn rule(&self) -> &'static str {
        "the real client (client_main_inner) with max_retry_count in {0,1,2,3,5}, max_retry_interval 100 ms..300 s, handshake timeout 1/3 s, channel timeout 1/2/5 s against a scripted server playing 2-7 behaviours, one per connection attempt: refuse, accept-then-stall, HTTP 403, handshake then orderly Close after d ms, handshake then TCP reset after d ms, handshake then ignore everything (stream requests time out), handshake then read but answer no stream request and Close / reset after d ms (a request is in flight at the loss), real healthy server; local TCP clients connect while the tunnel is down or unanswered. Oracle: attempt k+1 starts exactly min(200 ms * 2^c, max) after failure k (virtual time), c restarting after every completed handshake; MaxRetryCountReached exactly after max_retry_count consecutive failed retries; non-retryable ends at once; local listeners never refuse; parked local connections are echoed by the next healthy connection. Non-trivial: at least two attempts."
    }
}

/// the tunnel is lost because the path to the server dies without a word: only the client's
/// keepalive (or a stream request timing out) can tell
pub struct C19KaFamily;
impl Family for C19KaFamily {
    fn name(&self) -> &'static str {
        "silent-peer"
    }
    fn runs(&self, tier: Tier) -> u64 {
        if tier == Tier::Quick { 30_000 } else { 1_000_000 }
    }
    fn generate(&self, batch_seed: u64, index: u64, _tier: Tier) -> (Value, u64) {
        use c19::*;
        let seed = simcore::prng::mix(batch_seed, "silent-peer", index);
        let mut r = Prng::new(seed);
        let r = &mut r;
        let iv = *r.pick(&[500u64, 1000, 2000, 5000, 25_000]);
        // below the interval (clamped up to it), equal, a multiple, not a multiple; rarely none
        let t_req = if r.chance(1, 12) { 0 } else { *r.pick(&[iv / 2, iv, 2 * iv, 2 * iv + 700, 3 * iv]) };
        let n = 1 + r.below(4);
        // never a multiple of the interval: a Ping leaving at the instant the path dies is ambiguous
        let silent = |r: &mut Prng| Beh::GoSilent(r.below(4) as u64 * iv + 1 + r.below(iv as usize - 1) as u64);
        let mut script: Vec<Beh> = (0..n)
            .map(|_| match r.below(7) {
                0 => Beh::Refuse,
                1 => Beh::CloseAfter(50 + r.below(3000) as u64),
                2 => Beh::ResetAfter(50 + r.below(3000) as u64),
                3 => Beh::SilentClose(50 + r.below(900) as u64),
                _ => silent(r),
            })
            .collect();
        if !script.iter().any(|b| matches!(b, Beh::GoSilent(_))) {
            let at = r.below(script.len());
            script[at] = silent(r);
        }
        script.push(if r.chance(1, 6) { Beh::Refuse } else { Beh::Healthy });
        let max_count = *r.pick(&[0u32, 1, 2, 3, 5]);
        let max_iv = *r.pick(&[100u64, 300, 1000, 10_000, 300_000]);
        let hs_to_s = *r.pick(&[0u64, 1, 3]);
        let ch_to_s = *r.pick(&[1u64, 2, 5, 30]);
        // local connections only from the last phase with a live multiplexor on: an earlier one
        // would acknowledge (and never echo) what was parked; in that phase itself, if it is a
        // GoSilent, they arrive during the silence and are in flight when the connection is given up
        let first_ok = script.iter().rposition(|b| matches!(b, Beh::CloseAfter(_) | Beh::ResetAfter(_) | Beh::GoSilent(_))).unwrap_or(0);
        let mut locals = vec![];
        for (i, b) in script.iter().enumerate() {
            if i < first_ok {
                continue;
            }
            match b {
                Beh::GoSilent(d) if i == first_ok && r.chance(2, 3) => {
                    let t = if t_req == 0 { iv } else { t_req.max(iv) };
                    locals.push(Local { phase: i, delay_ms: d + 1 + r.below((t + iv) as usize) as u64, nbytes: 1 + r.below(3000), expect_served: true, remote: 0 });
                }
                Beh::Refuse if i > first_ok && r.chance(1, 3) => locals.push(Local { phase: i, delay_ms: r.below(150) as u64, nbytes: 1 + r.below(3000), expect_served: true, remote: 0 }),
                Beh::SilentClose(d) if i > first_ok && r.chance(2, 3) => locals.push(Local { phase: i, delay_ms: r.below((*d as usize).min(150)) as u64, nbytes: 1 + r.below(3000), expect_served: true, remote: 0 }),
                Beh::Healthy if i > first_ok && r.chance(1, 2) => locals.push(Local { phase: i, delay_ms: r.below(150) as u64, nbytes: 1 + r.below(3000), expect_served: true, remote: 0 }),
                _ => {}
            }
        }
        (serde_json::to_value(C19Plan { script, max_count, max_iv, hs_to_s, ch_to_s, locals, keepalive_ms: [iv, t_req], udp_down: 0 }).expect("plan"), seed)
    }
    fn records_decisions(&self) -> bool {
        false
    }
    fn exec(&self, plan: &Value, sched: &Sched, _record: bool) -> Outcome {
        let Ok(plan) = serde_json::from_value::<c19::C19Plan>(plan.clone()) else { return Outcome::default() };
        c19::run(&plan, sched)
    }
    fn rule(&self) -> &'static str {
        "the real client with keepalive (interval 0.5-25 s; timeout below the interval, equal, a multiple, not a multiple, or none), timed on the simulated clock through the guarded hook, against scripts of 2-5 behaviours with at least one GoSilent(d): handshake, a live multiplexor for d ms (d never a multiple of the interval), then the path dies without a word (nothing is delivered in either direction any more, nothing fails); other entries: refuse, orderly Close / TCP reset after d, silent-then-Close, healthy. A local connection may arrive during the silence (its request is in flight when the connection is given up). Oracle: the connection is given up no earlier than T and no later than T + I after the last Pong (Pings leave at connect + k I in this latency-free world), or exactly channel_timeout after the first request made during the silence if that comes first; from there on the lifecycle clauses apply (retry 200 ms later, back-off, give-up count, parked connection echoed by the next healthy connection). Non-trivial: at least two attempts."
    }
}

pub struct C01Family;
impl Family for C01Family {
    fn name(&self) -> &'static str {
        "tunnel"
    }
    fn runs(&self, tier: Tier) -> u64 {
        if tier == Tier::Quick { 40_000 } else { 2_000_000 }
    }
    fn generate(&self, batch_seed: u64, index: u64, tier: Tier) -> (Value, u64) {
        use c01::*;
        use common::NetPlan;
        let seed = simcore::prng::mix(batch_seed, "tunnel", index);
        let mut r = Prng::new(seed);
        let r = &mut r;
        let faulty_udp = r.chance(1, 5);
        let mut net = NetPlan {
            latency_lo: 0,
            latency_hi: *r.pick(&[0u64, 0, 2, 50]),
            partial_io: *r.pick(&[0u32, 100, 400]),
            spurious_pending: *r.pick(&[0u32, 0, 50]),
            buf_cap: *r.pick(&[1024usize, 65_536, 262_144]),
            udp_loss: if faulty_udp { 100 } else { 0 },
            udp_dup: if faulty_udp { 100 } else { 0 },
            udp_reorder: if faulty_udp { 150 } else { 0 },
            // half of the runs use penguin's window of 512 frames, the others a small one, so that
            // credit runs out within ordinary transfers
            window: if r.chance(1, 2) { None } else { Some(*r.pick(&[[1u32, 1], [2, 1], [2, 2], [4, 2], [8, 8], [16, 4], [64, 32]])) },
        };
        let sizes = |r: &mut Prng, big: bool| -> Vec<usize> {
            if big {
                return vec![65_536; 96]; // 6 MiB: beyond the production window of 512 frames
            }
            let n = r.below(6);
            (0..n).map(|_| *r.pick(&[0usize, 1, 3, 100, 1000, 4096, 20_000, 65_536])).collect()
        };
        let n_tcp = if r.chance(1, 8) { 0 } else { 1 + r.below(6) };
        let mut tcp: Vec<TcpConn> = vec![];
        let mut small_buffers = false;
        for _ in 0..n_tcp {
            let big = r.chance(1, if tier == Tier::Quick { 400 } else { 60 });
            let (client_end, target_mode) = match r.below(20) {
                0..=9 => (0u8, 0u8),
                10 | 11 => (0, 1),
                12 => (2, 1),
                13 | 14 => (0, 2),
                15 | 16 => (0, 3),
                17 => (1, 4),
                18 => (0, 5),
                19 if r.chance(1, 2) => (3, 6),
                19 => (4, if r.chance(1, 2) { 0 } else { 1 }),
                _ => (1, 0),
            };
            let mut up = sizes(r, big);
            if (target_mode == 5 || target_mode == 2) && r.chance(1, 2) {
                // enough to exhaust the 512-frame window when frames are socket-buffer sized (1 KiB)
                up = vec![65_536; 16];
                small_buffers = true;
            }
            let mut down = if big && r.chance(1, 2) { vec![] } else { sizes(r, false) };
            if target_mode == 4 {
                down = vec![];
            }
            let mut early_k = r.below(up.iter().sum::<usize>() + 1);
            if target_mode == 6 {
                // a request, then an answer long enough to use up a small window while the client leaves
                up = (0..r.below(3)).map(|_| *r.pick(&[1usize, 100, 1000])).collect();
                down = vec![*r.pick(&[4096usize, 65_536]); 4 + r.below(20)];
                early_k = r.below(3) * 1000;
                if r.chance(1, 2) {
                    small_buffers = true;
                }
            }
            tcp.push(TcpConn { entry: r.below(10) as u8, start_ms: r.below(300) as u64, up, down, up_gap_ms: *r.pick(&[0u64, 0, 1, 30]), down_gap_ms: *r.pick(&[0u64, 0, 1, 30]), client_end, target_mode, early_k, target_read_delay_ms: if big { 2000 } else { *r.pick(&[0u64, 0, 0, 500]) }, unreachable: false });
        }
        // a destination without a route named first, an IPv6-only target afterwards: one failed connect
        // says nothing about the next destination
        if tcp.len() >= 2 && r.chance(1, 8) {
            tcp[0].entry = if r.chance(1, 2) { 6 } else { 8 };
            tcp[0].target_mode = 3;
            tcp[0].unreachable = true;
            tcp[0].start_ms = 0;
            tcp[0].client_end = 0;
            tcp[1].entry = if r.chance(1, 2) { 6 } else { 8 };
            tcp[1].start_ms = 300 + r.below(500) as u64;
        }
        if small_buffers {
            net.buf_cap = 1024;
        }
        let n_udp_targets = 1 + r.below(2);
        let n_udp = if n_tcp == 0 { 1 + r.below(4) } else if small_buffers { 0 } else { r.below(4) };
        if n_udp > 0 {
            // datagrams share the WebSocket with the streams: keep stream volume small in runs with
            // UDP exchanges so that head-of-line blocking cannot push a reply beyond the prune window
            for c in &mut tcp {
                for v in [&mut c.up, &mut c.down] {
                    for x in v.iter_mut() {
                        *x = (*x).min(1000);
                    }
                }
            }
        }
        let udp = (0..n_udp)
            .map(|_| UdpClient { via_socks: r.chance(1, 2), target: r.below(n_udp_targets), start_ms: r.below(200) as u64, sizes: (0..(1 + r.below(4))).map(|_| *r.pick(&[0usize, 1, 2, 3, 4, 13, 100, 1400, 9000])).collect(), gap_ms: if r.chance(1, 6) { *r.pick(&[10_500u64, 15_000, 19_500, 25_000]) } else { *r.pick(&[0u64, 10, 300, 900]) }, hops: (0..4).map(|_| r.below(2)).collect(), junk: (0..4).map(|_| if r.chance(1, 4) { 1 + r.below(4) as u8 } else { 0 }).collect(), v6: { let mixed = r.chance(1, 4); (0..4).map(|_| mixed && r.chance(1, 2)).collect() }, alt_local: false, burst: 0, stream_n: if r.chance(1, 8) { 2 + r.below(5) } else { 0 }, pairs: r.chance(1, 3) })
            .collect();
        // a quarter of the runs with UDP remotes bind them to the wildcard address (no local host in
        // the remote specification); some clients then come in through the secondary local address
        let udp_wildcard = n_udp > 0 && r.chance(1, 4);
        let mut udp: Vec<UdpClient> = udp;
        // a tenth of the runs with UDP: one or two clients of UDP remotes whose target answers each
        // request with a burst of fillers (more than the server's reply queue holds) and the real
        // reply three seconds later
        if n_udp > 0 && !faulty_udp && r.chance(1, 10) {
            let n = 1 + r.below(2);
            udp = (0..n).map(|_| UdpClient { via_socks: false, target: r.below(n_udp_targets), start_ms: 100, sizes: vec![4; 1 + r.below(2)], gap_ms: 0, hops: vec![], junk: vec![], v6: vec![], alt_local: false, burst: 70 + r.below(130), stream_n: 0, pairs: false }).collect();
            net.buf_cap = net.buf_cap.max(65_536);
        }
        if udp_wildcard {
            for c in &mut udp {
                c.alt_local = !c.via_socks && r.chance(1, 2);
            }
        }
        // the stream-request channel of the client has 64 slots
        let idle_remotes = if r.chance(1, 12) { *r.pick(&[10usize, 63, 64, 65, 80]) } else { 0 };
        let keepalive_ms = if net.latency_hi == 0 && r.chance(1, 3) { [*r.pick(&[500u64, 2000, 25_000]), 60_000] } else { [0, 0] };
        (serde_json::to_value(C01Plan { net, tcp, udp, n_udp_targets, idle_remotes, keepalive_ms, udp_wildcard }).expect("plan"), seed)
    }
    fn records_decisions(&self) -> bool {
        false
    }
    fn exec(&self, plan: &Value, sched: &Sched, _record: bool) -> Outcome {
        let Ok(plan) = serde_json::from_value::<c01::C01Plan>(plan.clone()) else { return Outcome::default() };
        c01::run(&plan, sched)
    }
    fn rule(&self) -> &'static str {
        "the real client with a seeded set of remotes (TCP port, Unix socket, SOCKS, HTTP proxy, 1-2 UDP remotes) against the real server and simulated targets; 0-6 concurrent local TCP connections through a random entry point each (fixed TCP/Unix remote, SOCKS4, SOCKS4a, SOCKS5 with IPv4/domain/IPv6 target, HTTP CONNECT to a host name or an IPv6 literal) with seeded write chunkings on both ends (0..64 KiB chunks, occasionally 6 MiB against a target that reads late), who half-closes first, abrupt closes, targets that refuse, close early, stay silent, or answer, half-close and close without ever reading while the local client is still uploading more than the flow-control window holds; 0-4 concurrent local UDP clients through UDP remotes or SOCKS5 UDP ASSOCIATE with payloads of 0..9000 bytes; simulated network with seeded latency, partial reads/writes, spurious Pending, small socket buffers, and (in a fifth of the runs) UDP loss/duplication/reordering, where the UDP oracle is relaxed to `never misdelivered or corrupted`. Non-trivial: bytes flowed both ways on some TCP connection or a UDP reply arrived."
    }
}
fn c01() -> Check {
    Check {
        property: "C01",
        engine: "syssim",
        level: "exploration",
        families: vec![Box::new(C01Family)],
        required_probes: vec!["entry:TCP-port remote", "entry:Unix-socket remote", "entry:SOCKS4", "entry:SOCKS4a", "entry:SOCKS5/IPv4", "entry:SOCKS5/domain", "entry:SOCKS5/IPv6", "entry:HTTP CONNECT", "client-half-closed-first", "target-half-closed-first", "target-refused-or-closed-early", "client-closed-on-silent-target", "udp-via-socks5", "udp-via-remote", "udp-payload-under-4-bytes", "concurrent-udp-clients", "one-association-several-targets", "entry:HTTP CONNECT/IPv6 literal", "target-closed-without-reading-while-uploader-out-of-credit", "fault:unparseable-datagram-to-socks5-relay", "udp-client-idle-longer-than-the-prune-timeout", "udp-reply-after-a-burst-beyond-the-server-queue", "client-closed-while-target-was-sending", "udp-target-streams-longer-than-the-prune-timeout"],
        assumptions: vec!["UDP exchanges stay inside the prune window and below the datagram buffers, so a missing reply cannot be excused in fault-free configurations", "the SOCKS5 UDP reply header is only required to be well-formed per RFC 1928 and to carry the payload (the statement does not fix its address fields)", "TLS not simulated (ws://)"],
        real: vec!["penguin client: client_main_inner, handle_tcp/udp/socks/http, UDP client-id maps, bridges", "penguin server: run_listener, hyper serve_connection_with_upgrades, State service, handle_websocket, tcp_forwarder_on_channel, udp_forward_on", "tokio-tungstenite both sides", "penguin-mux + penguin-socks + hyper (CONNECT)"],
        stub: vec!["tokio::net (penguin-simnet)", "local clients (written against RFC 1928 / SOCKS4a / HTTP CONNECT)", "targets", "clock (paused), scheduler RNG (seeded)"],
    }
}


pub struct C14Family {
    pub enumerate: bool,
}
/// all deviation sets of size <= 2 from the valid request: (factor, value) with factor 0 method, 1 path, 2..=6 headers, 7 psk
fn c14_deviation_sets() -> Vec<Vec<(usize, u8)>> {
    let domain: [u8; 8] = [4, 6, c14::N_HVAR, c14::N_HVAR, c14::N_HVAR, c14::N_HVAR, c14::N_HVAR, c14::N_PSK];
    let mut singles = vec![];
    for (f, n) in domain.iter().enumerate() {
        for v in 1..*n {
            singles.push((f, v));
        }
    }
    let mut sets = vec![vec![]];
    for s in &singles {
        sets.push(vec![*s]);
    }
    for (i, a) in singles.iter().enumerate() {
        for b in &singles[i + 1..] {
            if a.0 != b.0 {
                sets.push(vec![*a, *b]);
            }
        }
    }
    sets
}
impl Family for C14Family {
    fn name(&self) -> &'static str {
        if self.enumerate { "matrix" } else { "sampled" }
    }
    fn runs(&self, tier: Tier) -> u64 {
        let all = 24 * c14_deviation_sets().len() as u64;
        match (self.enumerate, tier) {
            (true, Tier::Quick) => all * 3,
            (true, Tier::Thorough) => all * 40,
            (false, Tier::Quick) => 20_000,
            (false, Tier::Thorough) => 1_000_000,
        }
    }
    fn generate(&self, batch_seed: u64, index: u64, _tier: Tier) -> (Value, u64) {
        use c14::*;
        let seed = simcore::prng::mix(batch_seed, self.name(), index);
        let mut r = Prng::new(seed);
        let r = &mut r;
        let mut p = C14Plan { psk_on: false, obfs: false, method: 0, path: 0, hv: [0; 5], psk: 0, psk_kind: 0, frags: vec![], frag_delay_ms: 0, net: common::NetPlan::default(), try_tunnel: true, backend: 0, http10: false };
        if self.enumerate {
            let sets = c14_deviation_sets();
            let k = index % (24 * sets.len() as u64);
            let cfg = k / sets.len() as u64;
            p.psk_on = cfg & 1 == 1;
            p.obfs = cfg & 2 == 2;
            p.backend = ((cfg / 4) % 3) as u8;
            p.psk_kind = (cfg / 12) as u8;
            for (f, v) in &sets[(k % sets.len() as u64) as usize] {
                match f {
                    0 => p.method = *v,
                    1 => p.path = *v,
                    7 => p.psk = *v,
                    h => p.hv[h - 2] = *v,
                }
            }
        } else {
            p.psk_on = r.chance(1, 2);
            p.obfs = r.chance(1, 2);
            p.method = if r.chance(1, 2) { 0 } else { r.below(4) as u8 };
            p.path = if r.chance(1, 2) { 0 } else { r.below(6) as u8 };
            for h in &mut p.hv {
                *h = if r.chance(1, 2) { r.below(2) as u8 } else { r.below(N_HVAR as usize) as u8 };
            }
            p.psk = if r.chance(1, 2) { 0 } else { r.below(N_PSK as usize) as u8 };
            p.psk_kind = r.below(2) as u8;
            p.backend = r.below(3) as u8;
        }
        p.http10 = r.chance(1, 10);
        // fragmentation: split points anywhere, including inside a header name, with virtual delays
        p.frags = match r.below(5) {
            0 => vec![],
            1 => vec![1],
            2 => vec![7],
            _ => (0..(1 + r.below(6))).map(|_| 1 + r.below(60)).collect(),
        };
        p.frag_delay_ms = *r.pick(&[0u64, 1, 3, 20]);
        p.net = common::NetPlan { latency_lo: 0, latency_hi: *r.pick(&[0u64, 0, 5]), partial_io: *r.pick(&[0u32, 300]), spurious_pending: *r.pick(&[0u32, 50]), buf_cap: *r.pick(&[256usize, 65_536]), ..Default::default() };
        (serde_json::to_value(p).expect("plan"), seed)
    }
    fn records_decisions(&self) -> bool {
        false
    }
    fn exec(&self, plan: &Value, sched: &Sched, _record: bool) -> Outcome {
        let Ok(plan) = serde_json::from_value::<c14::C14Plan>(plan.clone()) else { return Outcome::default() };
        c14::run(&plan, sched)
    }
    fn rule(&self) -> &'static str {
        if self.enumerate {
            "for each of the configurations {PSK configured or not; the key ASCII or with octets >= 0x80} x {obfs on/off} x {no backend / backend up / backend down}: the valid request and ALL requests deviating from it in at most two of the eight factors (method GET/POST/HEAD/PUT; path /ws, /ws/, /WS, /health, /version, unknown; each of Connection, Upgrade, Sec-WebSocket-Version, Sec-WebSocket-Protocol, Sec-WebSocket-Key exact / case-changed / near-miss / absent / empty / duplicated; X-Penguin-PSK equal / absent / prefix / case-variant / padded / another key over the same alphabet / a key over the other alphabet) are enumerated by run index; each is sent through real hyper over the simulated network under a seeded fragmentation (split points anywhere, 1-byte fragments included, virtual delays) together with its twin on an unknown path."
        } else {
            "higher-order combinations of the same factors, sampled."
        }
    }
    fn exhaustive(&self, _tier: Tier) -> bool {
        self.enumerate
    }
}
fn c14() -> Check {
    Check {
        property: "C14",
        engine: "syssim",
        level: "exploration",
        families: vec![Box::new(C14Family { enumerate: true }), Box::new(C14Family { enumerate: false })],
        required_probes: vec!["answered-101", "tunnel-started-after-101", "refusal-compared-with-twin", "one-byte-fragments", "obfs-health-or-version", "refusal-served-by-backend", "backend-down-falls-back-to-404"],
        assumptions: vec!["the decisive dimension is an input/configuration matrix; the simulator contributes the live HTTP connection without which the gate is unreachable, and the fragmentation schedule", "`same as an unknown path` is checked with no backend (configured 404), with a backend that answers (raw HTTP/1.1 server on the simulated network, reached through the guarded connector hook) and with a backend that is configured but down; plain-HTTP backends only", "cells the statement leaves open (empty Sec-WebSocket-Key, a header sent twice with identical values) may go either way but a refusal must still equal the twin's response", "/health and /version are judged only with obfuscation on"],
        real: vec!["penguin server: run_listener, hyper auto::Builder serve_connection_with_upgrades, IoWithTimeout, State service (path routing, ws_handler gate, 404 handler), handle_websocket after the upgrade", "tokio-tungstenite + penguin-mux client on the upgraded socket"],
        stub: vec!["tokio::net (penguin-simnet)", "the HTTP client (raw HTTP/1.1 bytes, fragmented)", "clock, scheduler RNG"],
    }
}

/// Side check of the C19 oracle itself: the pure `Backoff` generator against the closed formula
/// min(initial * mult^k, max), None after max_count advances, reset; all small tuples.
pub struct BackoffFamily;
impl Family for BackoffFamily {
    fn name(&self) -> &'static str {
        "backoff-formula"
    }
    fn runs(&self, _tier: Tier) -> u64 {
        6 * 6 * 4 * 6
    }
    fn generate(&self, _batch_seed: u64, index: u64, _tier: Tier) -> (Value, u64) {
        let initial = [1u64, 3, 10, 200, 1000, 5000][(index % 6) as usize];
        let max = [1u64, 5, 100, 300, 10_000, 300_000][((index / 6) % 6) as usize];
        let mult = [1u32, 2, 3, 10][((index / 36) % 4) as usize];
        let max_count = [0u32, 1, 2, 3, 5, 12][((index / 144) % 6) as usize];
        (serde_json::json!({"initial_ms": initial, "max_ms": max, "mult": mult, "max_count": max_count}), index)
    }
    fn records_decisions(&self) -> bool {
        false
    }
    fn exec(&self, plan: &Value, _sched: &Sched, _record: bool) -> Outcome {
        use std::time::Duration;
        let g = |k: &str| plan[k].as_u64().unwrap_or(1);
        let (initial, max, mult, max_count) = (g("initial_ms"), g("max_ms"), g("mult") as u32, g("max_count") as u32);
        let mut o = Outcome { nontrivial: true, digest: initial ^ (max << 16) ^ ((mult as u64) << 40) ^ ((max_count as u64) << 48), steps: 1, ..Default::default() };
        let mut b = penguin_mux::timing::Backoff::new(Duration::from_millis(initial), Duration::from_millis(max), mult, max_count);
        for round in 0..2 {
            let mut cur = initial as u128;
            for k in 0..20u32 {
                let got = b.advance();
                let want = if max_count != 0 && k >= max_count { None } else { Some(Duration::from_millis(cur.min(max as u128) as u64)) };
                if got != want {
                    o.violate("C19:backoff-generator", format!("Backoff(initial {initial} ms, max {max} ms, x{mult}, max_count {max_count}) round {round}: advance #{k} returned {got:?}, the formula gives {want:?}"));
                    return o;
                }
                cur = (cur.min(max as u128)) * mult as u128;
            }
            b.reset();
        }
        o.probe("backoff-tuples-checked", 1);
        o
    }
    fn rule(&self) -> &'static str {
        "side check of the oracle's formula: all 864 (initial, max, multiplier, max_count) tuples from small grids, 20 advances, reset, 20 advances again, against min(initial * mult^k, max) / None after max_count."
    }
    fn exhaustive(&self, _tier: Tier) -> bool {
        true
    }
}

fn c19() -> Check {
    Check {
        property: "C19",
        engine: "syssim",
        level: "fault_enumeration",
        families: vec![Box::new(C19Family), Box::new(C19KaFamily), Box::new(BackoffFamily)],
        required_probes: vec!["retry-checked", "stream-request-timeout-checked", "backoff-capped", "gave-up-after-max-retries", "non-retryable-failure", "established-connection-lost", "parked-local-connection-served", "request-in-flight-at-loss", "lost-by-keepalive-expiry", "udp-remote-served-after-reconnect", "udp-backlog-beyond-the-queue-while-down", "fault:tcp-reset", "fault:tcp-refused", "fault:tcp-blackhole"],
        assumptions: vec!["zero network latency in this family so that retry instants are exact; TLS is not simulated (ws://)", "the client's keepalive (family silent-peer only) is timed on tokio's paused clock through the guarded hook verif_hooks::SimInstant; production uses std::time::Instant"],
        real: vec!["penguin client: client_main_inner, retry loop + Backoff, ws_connect::handshake (timeout select), on_connected, get_send_stream_chan, handle_remote/tcp listener", "tokio-tungstenite client and server", "penguin server run_listener + hyper + forwarder (healthy phases)", "penguin-mux with the real tungstenite WebSocket"],
        stub: vec!["tokio::net (penguin-simnet: in-memory sockets, refusal, reset)", "the scripted server (one behaviour per attempt)", "clock (tokio paused)", "tokio scheduler RNG (seeded)"],
    }
}

fn lookup(id: &str) -> Option<Check> {
    match id {
        "C01" => Some(c01()),
        "C14" => Some(c14()),
        "C19" => Some(c19()),
        _ => None,
    }
}

fn main() {
    let args: Vec<String> = std::env::args().collect();
    if args.get(1).map(|s| s.as_str()) == Some("selftest-ws") {
        let n = args.get(2).and_then(|s| s.parse().ok()).unwrap_or(20_000);
        std::process::exit(wscontract::run(n, simcore::default_seed()));
    }
    let code = simcore::cli(&args, &lookup);
    std::process::exit(code);
}

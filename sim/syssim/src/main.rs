mod c19;
mod common;

use serde_json::Value;
use simcore::{Check, Family, Outcome, Prng, Sched, Tier};

pub struct C19Family;
impl Family for C19Family {
    fn name(&self) -> &'static str {
        "lifecycles"
    }
    fn runs(&self, tier: Tier) -> u64 {
        if tier == Tier::Quick { 150_000 } else { 3_000_000 }
    }
    fn generate(&self, batch_seed: u64, index: u64, _tier: Tier) -> (Value, u64) {
        use c19::*;
        let seed = simcore::prng::mix(batch_seed, "lifecycles", index);
        let mut r = Prng::new(seed);
        let r = &mut r;
        let n = 1 + r.below(6);
        let mut script: Vec<Beh> = (0..n)
            .map(|_| match r.below(8) {
                0 | 1 => Beh::Refuse,
                2 => Beh::Stall,
                3 => Beh::CloseAfter(50 + r.below(3000) as u64),
                4 => Beh::ResetAfter(50 + r.below(3000) as u64),
                5 => Beh::Ignore,
                _ => Beh::Refuse,
            })
            .collect();
        script.push(match r.below(6) {
            0 => Beh::NonRetryable,
            1 => Beh::Refuse,
            _ => Beh::Healthy,
        });
        let max_count = *r.pick(&[0u32, 1, 2, 3, 5]);
        let max_iv = *r.pick(&[100u64, 300, 1000, 10_000, 300_000]);
        let hs_to_s = *r.pick(&[1u64, 3]);
        let ch_to_s = *r.pick(&[1u64, 2, 5]);
        // local connections: only in the trailing phases after the last phase that serves-then-cuts
        let first_ok = script.iter().rposition(|b| matches!(b, Beh::CloseAfter(_) | Beh::ResetAfter(_))).map(|i| i + 1).unwrap_or(0);
        let mut locals = vec![];
        for (i, b) in script.iter().enumerate() {
            if i < first_ok {
                continue;
            }
            let want = match b {
                Beh::Ignore => true, // needs a stream request to time out
                Beh::Refuse | Beh::Stall => r.chance(1, 3),
                Beh::Healthy => r.chance(1, 2),
                _ => false,
            };
            if want {
                locals.push(Local { phase: i, delay_ms: r.below(150) as u64, nbytes: 1 + r.below(3000), expect_served: true });
            }
        }
        // an Ignore phase before `first_ok` would hang without a request: give it one anyway
        for (i, b) in script.iter().enumerate() {
            if *b == Beh::Ignore && i < first_ok {
                locals.push(Local { phase: i, delay_ms: r.below(50) as u64, nbytes: 10, expect_served: false });
            }
        }
        (serde_json::to_value(C19Plan { script, max_count, max_iv, hs_to_s, ch_to_s, locals }).expect("plan"), seed)
    }
    fn exec(&self, plan: &Value, sched: &Sched, _record: bool) -> Outcome {
        let Ok(plan) = serde_json::from_value::<c19::C19Plan>(plan.clone()) else { return Outcome::default() };
        c19::run(&plan, sched)
    }
    fn rule(&self) -> &'static str {
        "the real client (client_main_inner) with max_retry_count in {0,1,2,3,5}, max_retry_interval 100 ms..300 s, handshake timeout 1/3 s, channel timeout 1/2/5 s against a scripted server playing 2-7 behaviours, one per connection attempt: refuse, accept-then-stall, HTTP 403, handshake then orderly Close after d ms, handshake then TCP reset after d ms, handshake then ignore everything (stream requests time out), real healthy server; local TCP clients connect while the tunnel is down or unanswered. Oracle: attempt k+1 starts exactly min(200 ms * 2^c, max) after failure k (virtual time), c restarting after every completed handshake; MaxRetryCountReached exactly after max_retry_count consecutive failed retries; non-retryable ends at once; local listeners never refuse; parked local connections are echoed by the next healthy connection. Non-trivial: at least two attempts."
    }
}

fn c19() -> Check {
    Check {
        property: "C19",
        engine: "syssim",
        level: "fault_enumeration",
        families: vec![Box::new(C19Family)],
        required_probes: vec!["retry-checked", "backoff-capped", "gave-up-after-max-retries", "non-retryable-failure", "established-connection-lost", "parked-local-connection-served", "fault:tcp-reset", "fault:tcp-refused"],
        assumptions: vec!["zero network latency in this family so that retry instants are exact; TLS is not simulated (ws://)", "the client's keepalive is off (Multiplexor::new_with_opt hard-wires std::time::Instant; keepalive is decided in C16)"],
        real: vec!["penguin client: client_main_inner, retry loop + Backoff, ws_connect::handshake (timeout select), on_connected, get_send_stream_chan, handle_remote/tcp listener", "tokio-tungstenite client and server", "penguin server run_listener + hyper + forwarder (healthy phases)", "penguin-mux with the real tungstenite WebSocket"],
        stub: vec!["tokio::net (penguin-simnet: in-memory sockets, refusal, reset)", "the scripted server (one behaviour per attempt)", "clock (tokio paused)", "tokio scheduler RNG (seeded)"],
    }
}

fn lookup(id: &str) -> Option<Check> {
    match id {
        "C19" => Some(c19()),
        _ => None,
    }
}

fn main() {
    let args: Vec<String> = std::env::args().collect();
    let code = simcore::cli(&args, &lookup);
    std::process::exit(code);
}

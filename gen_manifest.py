#!/usr/bin/env python3
"""Regenerates MANIFEST.json from the table below (kept in one place so it is always valid)."""
import json, subprocess
CLAIMED = {}   # id -> dict(engine, category, text, note, technique, design_ref)
NA = {}
def claim(pid, engine, category, text, note, technique, ref):
    CLAIMED[pid] = dict(engine=engine, category=category, text=text, note=note, technique=technique, ref=ref)
def na(pid, reason): NA[pid] = reason

exec(open('/verif/manifest_table.py').read())

hooks_commits = []
try:
    out = subprocess.run(['git','-C','/repo','log','--format=%H %s'],capture_output=True,text=True).stdout
    hooks_commits = [l.split()[0] for l in out.splitlines() if ' verif-hook:' in l or l.split(' ',1)[1].startswith('verif-hook')]
except Exception: pass
m = {
 "version": 1,
 "setup_cmd": "/verif/setup.sh",
 "hooks": {
   "guard": "penguin_rs_verif",
   "enable": "RUSTFLAGS='--cfg penguin_rs_verif --cfg tokio_unstable' (syssim, via /verif/sim/.cargo/config.toml) ; RUSTFLAGS='--cfg loom --cfg penguin_rs_verif' (loom models; the shuttle part builds the same models with `loom` resolved to /verif/shuttle/loomshim); muxsim needs no hooks",
   "baseline_off_cmd": "cd /repo && cargo test --workspace --no-fail-fast --offline",
   "source_commits": hooks_commits,
   "add_only": True,
 },
 "engines": [
   {"name":"muxsim","path":"/verif/sim/muxsim","serves_properties":[p for p,c in CLAIMED.items() if c['engine']=='muxsim'],"kind_free_text":"seeded executor nested in a paused tokio current_thread runtime; real penguin-mux endpoints over an in-memory WebSocket link with wire monitor and reference codec; scripted raw peer; scripted local I/O"},
   {"name":"loomsim","path":"/verif/loom","serves_properties":[p for p,c in CLAIMED.items() if c['engine']=='loomsim'],"kind_free_text":"loom-controlled threads over the crate's own sync shim (in-crate test module behind cfg(penguin_rs_verif)); the same models also run under shuttle's seeded random scheduler through /verif/shuttle (loom's API over shuttle, shadow manifest; also the third part of C07 and C08)"},
   {"name":"syssim","path":"/verif/sim/syssim","serves_properties":[p for p,c in CLAIMED.items() if c['engine']=='syssim'],"kind_free_text":"real penguin client + server (hyper, tungstenite, forwarders) over penguin-simnet, a simulated tokio::net, under the paused clock"},
 ],
 "checks": [],
 "not_applicable": [{"property_id":p,"reason":r} for p,r in sorted(NA.items())],
 "notes": "All checks: ./check <ID> [--tier quick|thorough]; replay: ./check <ID> --replay <file>. Exit 0 held / 1 VIOLATION / 2 harness error. Known findings: /verif/known_findings.txt.",
}
m["engines"] = [e for e in m["engines"] if e["serves_properties"]]
for p,c in sorted(CLAIMED.items()):
    m["checks"].append({
      "property_id": p,
      "quick_cmd": f"./check {p} --tier quick",
      "thorough_cmd": f"./check {p} --tier thorough",
      "evidence_file": f"/verif/evidence/{p}.json",
      "replay_cmd_template": f"./check {p} --replay {{path}}",
      "engine": c['engine'],
      "level_claimed": {"category": c['category'], "text": c['text'], "design_ref": c['ref']},
      "level_note": c['note'],
      "technique": c['technique'],
    })
json.dump(m, open('/verif/MANIFEST.json','w'), indent=1)
print("claimed:", sorted(CLAIMED), "n/a:", sorted(NA))

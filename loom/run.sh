#!/bin/bash
# /verif/loom/run.sh C12 [--tier quick|thorough] [--replay <file>]
# E2: loom-controlled threads over penguin-mux's own sync shim. Builds the crate's test target from
# /repo's working tree with `--cfg loom --cfg penguin_rs_verif` and explores every scenario of the
# (initial credit, writer polls, connection-task operations) space exhaustively up to loom's
# preemption bound. Scenarios are ordered by VERIF_SEED (quick = seeded subset first, all anyway).
set -u
ID="${1:-C12}"; shift || true
TIER="${VERIF_TIER:-quick}"; REPLAY=""
while [ $# -gt 0 ]; do case "$1" in --tier) TIER="$2"; shift 2;; --replay) REPLAY="$2"; shift 2;; *) shift;; esac; done
VERIF_DIR="${VERIF_DIR:-/verif}"
if [ -n "$REPLAY" ]; then
  case "$REPLAY" in /*) ;; *) REPLAY="$(pwd)/$REPLAY";; esac
  [ -f "$REPLAY" ] || { echo "HARNESS ERROR: no such replay file $REPLAY"; exit 2; }
fi
SEED="${VERIF_SEED:-20260924}"
T0=$(date +%s.%N)
export CARGO_NET_OFFLINE=true
cd "${VERIF_REPO:-/repo}" || exit 2
LOG="$VERIF_DIR/loom/build.log"
RUSTFLAGS="--cfg loom --cfg penguin_rs_verif" CARGO_TARGET_DIR="$VERIF_DIR/loom-target" cargo test -p penguin-mux --lib --release --offline --no-run > "$LOG" 2>&1 || { echo "BUILD FAILED (loom)"; tail -30 "$LOG"; exit 2; }
BIN=$(ls -t "$VERIF_DIR"/loom-target/release/deps/penguin_mux-* 2>/dev/null | grep -v '\.d$' | head -1)
[ -x "$BIN" ] || { echo "no test binary"; exit 2; }
"$BIN" --list 2>/dev/null | grep -q verif_loom_abort_vs_request || { echo "HARNESS ERROR: hook module verif_loom is not compiled in"; exit 2; }
mkdir -p "$VERIF_DIR/replays" "$VERIF_DIR/evidence"
run_one() { # scenario bound -> prints output, returns status
  local T=verif_loom_writer_vs_task
  case "$1" in frames,*) T=verif_loom_stream_vs_frames;; *,w2,*) T=verif_loom_two_writers;; ids,*) T=verif_loom_flow_ids;; abort,*) T=verif_loom_abort_vs_request;; dropmap,*) T=verif_loom_task_drop_vs_locked_map;; esac
  VERIF_LOOM_SCENARIO="$1" VERIF_LOOM_PREEMPTION_BOUND="$2" LOOM_MAX_BRANCHES=100000 "$BIN" $T --exact verif_loom::$T --nocapture --test-threads=1 2>&1
}
if [ -n "$REPLAY" ]; then
  SC=$(python3 -c "import json,sys;print(json.load(open(sys.argv[1]))['plan']['scenario'])" "$REPLAY")
  PB=$(python3 -c "import json,sys;print(json.load(open(sys.argv[1]))['plan']['preemption_bound'])" "$REPLAY")
  OUT=$(run_one "$SC" "$PB"); echo "$OUT" | grep -E "LOST WAKEUP|CONSERVATION|CREDIT|CLOSED|PROGRESS|FLOWID|ABORT|deadlock|VERIF_LOOM" | head -3
  if echo "$OUT" | grep -q "test result: FAILED"; then echo "VIOLATION property=$ID replay=$REPLAY"; exit 1; fi
  exit 0
fi
if [ "$TIER" = "thorough" ]; then PB=5; else PB=3; fi
python3 - "$SEED" "$ID" > /tmp/.loom_scen.$$ <<'PY'
import sys, random
if sys.argv[2] == "C08":
    # the task's future dropped on one thread (u = never polled, r = running) while another thread
    # calls new_stream_channel (o) / request_bind (b) on the Multiplexor it still holds
    print("\n".join(f"abort,{t},{c}" for t in "ur" for c in "ob")); sys.exit(0)
if sys.argv[2] == "C07":
    # application threads allocating flow ids (o = open, b = bind request) and the connection task
    # handling the peer's Connect (p<id>), over a generator scripted to collide
    two = ["7+7","7+7+9","0+7+7","7+0+7","1+2","7+7+7"]
    onep = ["7","7+9","0+7","9","7+7"]
    threep = ["7+7","7+7+9","7+9","0+7+7","1+2"]
    three = ["5+5+5","5+5+6","5+6+5","1+2+3"]
    sc  = [f"ids,{a},{x}" for a in ("oo","ob","bb") for x in two]
    sc += [f"ids,{a}p7,{x}" for a in ("o","b") for x in onep] + ["ids,op0,3","ids,bp0,0+3"]
    sc += [f"ids,{a}p7,{x}" for a in ("oo","ob","bb") for x in threep]
    sc += [f"ids,{a},{x}" for a in ("ooo","oob","obb") for x in three]
    # k: a pending local request (made first, takes the first scripted id) is acknowledged by the
    # peer on the task's thread while other threads draw the same id
    sc += [f"ids,{a},{x}" for a in ("ko","kb","koo","kob","kop7","kbp9") for x in ("7+7+9","7+7","7+9","7+7+7+9","0+7+7")]
    random.Random(int(sys.argv[1])).shuffle(sc)
    print("\n".join(sc)); sys.exit(0)
ops = ["a1","a2","c","a1+a1","a1+c","c+a1","a2+c","c+a2","a1+a2","a1+a1+c","a1+c+a1","c+a1+a1"]
sc = [f"{c},{p},{o}" for c in (0,1,2) for p in (1,2,3) for o in ops]
# two writers racing for credit on one stream (poll_obtain_write_permission takes &self)
sc += [f"{c},w2,{o}" for c in (0,1,2,3) for o in ("none","a1","a2","c","a1+c","c+a1","a1+a1")]
# a real stream (made by the task from the peer's Connect) used on one thread while another hands the
# task the peer's frames for it: credit x writer ops (w = poll_write, s = poll_shutdown) x frames
# (a<n> = Acknowledge, r = Reset, f = Finish, p = Push)
fr = [f"frames,{c},{w},{f}" for c in (0,1,2) for w in ("w","ww","www","ws","wsw","sw")
      for f in ("a1","a2","r","a1+r","r+a1","a1+a1","f","p+f","a1+f","p+a1+r")]
random.Random(int(sys.argv[1]) + 1).shuffle(fr)
random.Random(int(sys.argv[1])).shuffle(sc)
print("\n".join(sc + fr + ["dropmap,o", "dropmap,b", "dropmap,m"]))
PY
N=0; EXEC=0; VIOL=0; SAMPLES=""; FAILED_SC=""
while read -r SC; do
  OUT=$(run_one "$SC" "$PB")
  N=$((N+1))
  E=$(echo "$OUT" | sed -n 's/.*VERIF_LOOM scenario=.* executions=\([0-9]*\).*/\1/p' | head -1); E=${E:-0}
  EXEC=$((EXEC+E))
  [ $N -le 3 ] && SAMPLES="$SAMPLES{\"scenario\":\"$SC\",\"interleavings\":$E},"
  if echo "$OUT" | grep -q "test result: FAILED\|panicked"; then
    VIOL=$((VIOL+1))
    MSG=$(echo "$OUT" | grep -E "LOST WAKEUP|CONSERVATION|CREDIT|CLOSED|PROGRESS|FLOWID|ABORT|deadlock|panicked" | head -2 | tr '\n' ' ' | cut -c1-400)
    R="$VERIF_DIR/replays/$ID-loom-$(echo "$SC" | tr ',+' '__').json"
    python3 - "$R" "$SC" "$PB" "$MSG" "$ID" <<'PY'
import json,sys
json.dump({"property":sys.argv[5],"engine":"loomsim","class":sys.argv[5]+":"+("flow-id-race" if sys.argv[5]=="C07" else "request-hangs-at-task-drop" if sys.argv[5]=="C08" else "writer-not-released-at-task-drop" if "DROPMAP" in sys.argv[4] else "lost-wakeup" if "LOST WAKEUP" in sys.argv[4] else "credit-race"),"plan":{"scenario":sys.argv[2],"preemption_bound":int(sys.argv[3])},"expect":{"violation":sys.argv[4]},"note":"loom's DFS is deterministic: re-running the scenario reproduces the same failing interleaving"}, open(sys.argv[1],"w"), indent=1)
PY
    [ $VIOL -le 3 ] && { echo "violation scenario=$SC : $MSG"; echo "VIOLATION property=$ID replay=$R"; }
    FAILED_SC="$FAILED_SC $SC"
  fi
done < /tmp/.loom_scen.$$
rm -f /tmp/.loom_scen.$$
T1=$(date +%s.%N)
if [ "$ID" = "C08" ]; then
python3 - "$VERIF_DIR/loom/C08-part.json" "$TIER" "$SEED" "$N" "$EXEC" "$VIOL" "$(echo "$T1 - $T0" | bc)" "[${SAMPLES%,}]" "$PB" <<'PY'
import json,sys
out,tier,seed,n,ex,viol,wall,samples,pb=sys.argv[1:10]
json.dump({"engine":"loomsim","scenarios":int(n),"interleavings":int(ex),"preemption_bound":int(pb),"violations":int(viol),"wall_s":float(wall),"samples":json.loads(samples),
 "rule":"scenario = the future of a real connection task (from Multiplexor::new_detailed over an idle transport; never polled, or polled once and parked) is dropped on one loom thread while another thread runs new_stream_channel or request_bind to completion on the Multiplexor it still holds; the transport's destructor is a scheduling point (tokio's channels are not instrumented by loom, and the task drops its transport between giving up the flow map and giving up its queues); each of the "+n+" scenarios is explored by loom's DFS up to preemption bound "+pb+"; oracle: the call returns Closed (a bind request may also resolve false) in every interleaving - a call that never returns leaves its thread blocked, which loom reports as a deadlock",
 "components_real":["Multiplexor::new_detailed","TaskData::into_task / Task::start (first poll)","impl Drop for Task","Multiplexor::new_stream_channel","Multiplexor::request_bind","Multiplexor::insert_new_flow","penguin_mux::loom shim (loom RwLock, Mutex, Arc)"],
 "components_stub":["thread scheduler (loom)","transport (idle; destructor = scheduling point)","tokio mpsc / oneshot (real, but not instrumented: atomic between loom operations)"]}, open(out,"w"), indent=1)
PY
echo "C08(loom) $TIER seed=$SEED scenarios=$N interleavings=$EXEC violations=$VIOL"
[ $VIOL -gt 0 ] && exit 1
exit 0
fi
if [ "$ID" = "C07" ]; then
python3 - "$VERIF_DIR/loom/C07-part.json" "$TIER" "$SEED" "$N" "$EXEC" "$VIOL" "$(echo "$T1 - $T0" | bc)" "[${SAMPLES%,}]" "$PB" <<'PY'
import json,sys
out,tier,seed,n,ex,viol,wall,samples,pb=sys.argv[1:10]
json.dump({"engine":"loomsim","scenarios":int(n),"interleavings":int(ex),"preemption_bound":int(pb),"violations":int(viol),"wall_s":float(wall),"samples":json.loads(samples),
 "rule":"scenario = 2 or 3 threads over one real Multiplexor/Task pair sharing the flow map: application threads in Multiplexor::insert_new_flow (the id-allocation step of new_stream_channel 'o' and request_bind 'b') and the connection task in process_frame(Connect id) 'p<id>', with the flow-id generator scripted to collide (and to yield 0); each of the "+n+" scenarios is explored by loom's DFS over every interleaving of the lock and atomic operations up to preemption bound "+pb+"; oracles: ids handed out are non-zero and pairwise distinct, no pending slot is overwritten, the peer's Connect gets exactly one of Acknowledge/Reset and Acknowledge only for an id no local request holds, the map and the accept queue hold exactly the flows accounted for",
 "components_real":["Multiplexor::new_detailed","Multiplexor::insert_new_flow","Task::process_frame (Connect arm, con_recv_new_stream, new_stream_shared)","hashmap::next_available_nonzero_key","penguin_mux::loom shim (loom RwLock, Mutex, Arc, atomics)","tokio mpsc/oneshot under cfg(loom)"],
 "components_stub":["thread scheduler and memory model (loom)","transport (never touched)","flow-id generator (scripted)"]}, open(out,"w"), indent=1)
PY
echo "C07(loom) $TIER seed=$SEED scenarios=$N interleavings=$EXEC violations=$VIOL"
[ $VIOL -gt 0 ] && exit 1
exit 0
fi
python3 - "$VERIF_DIR/evidence/C12.json" "$TIER" "$SEED" "$N" "$EXEC" "$VIOL" "$(echo "$T1 - $T0" | bc)" "[${SAMPLES%,}]" "$PB" <<'PY'
import json,sys
out,tier,seed,n,ex,viol,wall,samples,pb=sys.argv[1:10]
json.dump({"property_id":"C12","tier":tier,"seed":int(seed),"level":"exploration",
 "coverage":{"evaluations":int(ex),"distinct_nontrivial":int(ex),
  "rule":"scenario = (initial credit 0/1/2) x (1-3 polls of one writer) x (12 scripts of the other thread: acknowledge(1|2) and/or disallow_write in every order), plus (initial credit 0..3) x (two writer threads polling once each) x (7 scripts of a third thread), plus 180 scenarios over a real stream wired to a real task: (initial credit 0/1/2) x (6 scripts of poll_write / poll_shutdown on one thread) x (10 scripts of the peer's Acknowledge / Reset / Finish / Push frames handed to the task's frame handler on another), plus 3 task-drop scenarios (the task dropped while another thread is inside insert_new_flow, or right after the multiplexor was let go, with a writer parked for credit); each of the "+n+" scenarios is explored by loom's DFS over every interleaving of the atomic operations and every value the C11 model lets a load return, up to preemption bound "+pb+"; evaluations = interleavings executed, each distinct by construction of the DFS and non-trivial (two threads touching the same atomics)",
  "samples":json.loads(samples),"scenarios":int(n),"preemption_bound":int(pb),"exhaustive":True,
  "components_real":["MuxStream::poll_obtain_write_permission","EstablishedStreamData::acknowledge / disallow_write","frames scenarios: Multiplexor::new_detailed, Task::process_frame (Connect, Acknowledge, Reset, Finish, Push arms), close_flow, MuxStream poll_write / poll_shutdown / poll_read, the flow map and its lock","penguin_mux::loom shim (loom Arc, atomics, AtomicWaker)"],
  "components_stub":["thread scheduler and memory model (loom)","the rest of the connection task (the other thread runs the scripted calls)"],
  "engine":"loomsim"},
 "assumptions":["loom's preemption bound limits context switches per execution (3 quick / 5 thorough); two threads only"],
 "wall_s":float(wall),"violations":int(viol)}, open(out,"w"), indent=1)
PY
echo "C12 $TIER seed=$SEED scenarios=$N interleavings=$EXEC violations=$VIOL"
[ $VIOL -gt 0 ] && exit 1
exit 0

#!/bin/bash
# try_mutant.sh <patch.diff> <ID> [<ID> ...]   — apply a seeded change to /repo, run the quick checks, undo.
# Evidence and replays of these runs go to a scratch VERIF_DIR so that committed evidence is untouched.
set -u
PATCH="$1"; shift
cd /repo || exit 2
git diff --quiet || { echo "/repo has uncommitted changes" >&2; exit 2; }
git apply "$PATCH" || { echo "patch does not apply" >&2; exit 2; }
SCR=$(mktemp -d /tmp/mutrun.XXXX); mkdir -p "$SCR"; cp /verif/known_findings.txt "$SCR/"
for ID in "$@"; do
  echo "=== $ID with $(basename $(dirname "$PATCH"))/$(basename "$PATCH")"
  case "$ID" in
    C12) /verif/check "$ID" --tier quick 2>&1 | grep -E "VIOLATION|violation|exit=|HARNESS|KNOWN|FAILED|panicked" | cut -c1-400;;
    C12S|C07S|C08S) /verif/shuttle/run.sh ${ID%S} --tier quick 2>&1 | grep -E "VIOLATION|violation|exit=|HARNESS|KNOWN|FAILED|panicked" | cut -c1-400; rm -f /verif/replays/C*-shuttle-*;;
    C07L|C08L) /verif/loom/run.sh ${ID%L} --tier quick 2>&1 | grep -E "VIOLATION|violation|exit=|HARNESS|KNOWN|FAILED|panicked" | cut -c1-400; rm -f /verif/replays/C0[78]-loom-*;;
    *) ( cd /verif/sim && cargo build --release --offline -q 2>&1 | grep -E "^error" -A 6 | head -20;  BIN=muxsim; case "$ID" in C01|C14|C19) BIN=syssim;; esac; VERIF_DIR="$SCR" ./target/release/$BIN check "$ID" --tier quick 2>&1 | grep -E "VIOLATION|^violation|exit=|HARNESS|KNOWN" | cut -c1-400 );;
  esac
done
git -C /repo checkout -- . 
rm -rf "$SCR"

#!/bin/bash
# Replay self-check: for a few seeded changes, apply the change to /repo, let the check find and
# minimise a violation, replay the file twice in fresh processes (must reproduce: exit 1, same digest),
# undo the change and replay once more on the unchanged tree (must NOT reproduce the violation).
# exit 0 ok, 2 = a replay did not behave. Leaves /repo as it found it.
set -u
cd /verif
FAIL=0
git -C /repo diff --quiet || { echo "/repo has uncommitted changes"; exit 2; }
SCR=$(mktemp -d /tmp/replaytest.XXXX); cp known_findings.txt "$SCR/"
run() { # id patch
  local ID="$1" PATCH="$2" BIN=muxsim
  case "$ID" in C01|C14|C19) BIN=syssim;; esac
  git -C /repo apply "/verif/$PATCH" || { echo "patch $PATCH does not apply"; FAIL=2; return; }
  ( cd sim && cargo build --release --offline -q -p $BIN 2>&1 | grep -E "^error" -A5 )
  rm -rf "$SCR/replays"
  VERIF_DIR="$SCR" sim/target/release/$BIN check "$ID" --no-evidence >/dev/null 2>&1
  local F; F=$(ls "$SCR"/replays/*.json 2>/dev/null | head -1)
  if [ -z "$F" ]; then echo "$ID: no violation found with $PATCH"; FAIL=2; git -C /repo checkout -- .; return; fi
  local A B
  A=$(sim/target/release/$BIN replay "$ID" "$F" | head -1); RA=$?
  B=$(sim/target/release/$BIN replay "$ID" "$F" | head -1)
  sim/target/release/$BIN replay "$ID" "$F" >/dev/null; RA=$?
  git -C /repo checkout -- .
  ( cd sim && cargo build --release --offline -q -p $BIN 2>&1 | grep -E "^error" -A5 )
  sim/target/release/$BIN replay "$ID" "$F" >/dev/null; RC=$?
  if [ "$A" != "$B" ] || [ $RA -ne 1 ] || [ $RC -eq 1 ]; then echo "$ID: REPLAY MISBEHAVES (with change: '$A' / '$B' exit $RA; unchanged tree exit $RC)"; FAIL=2; else echo "$ID: replay reproduces exactly with the change (exit 1, identical digest twice), not on the unchanged tree (exit $RC): $(basename "$F")"; fi
}
run C02 seeded/C02-dequeue-before-sink-ready/patch.diff
run C08 seeded/C08-late-connect-blocks-wind-down/patch.diff
run C13 seeded/C13-shutdown-state-before-poll/patch.diff
run C18 seeded/C18-read-instead-of-read-exact/patch.diff
run C19 seeded/C19-parked-request-uses-handshake-timeout/patch.diff
run C01 seeded/C01-udp-forwarder-keeps-first-target/patch.diff
run C06 seeded/C06-push-for-dropped-stream-frees-slot/patch.diff
run C14 seeded/C14-non-get-ws-request-skips-backend/patch.diff
run C16 seeded/C16-keepalive-timeout-not-clamped-to-interval/patch.diff
# a run that never returns: the watchdog reports it, and the replay wedges again
VERIF_WEDGE_SECS=10 run C10 seeded/C10-read-guard-held-into-overrun-arm/patch.diff
rm -rf "$SCR"
exit $FAIL

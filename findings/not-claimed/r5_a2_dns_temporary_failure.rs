//! Round 5 / A2 demonstration (property C19).
//!
//! The client is told never to give up (`max_retry_count = 0`). Its server is given by name.
//! While the network is away the resolver answers `EAI_AGAIN` ("Temporary failure in name
//! resolution") - which is what every reconnection attempt runs into after the connection
//! was lost because the network went away. `std` reports that as an `io::Error` of an
//! uncategorized kind, `MaybeRetryableError for io::Error` only knows a list of kinds, and so
//! the retry loop takes the temporary failure for a fatal error: the client ends at once,
//! its local listeners close and the local connections waiting for the tunnel are dropped.
//! With the server given by address the very same outage (`NetworkUnreachable`,
//! `ConnectionRefused`, ...) is retried for ever.
#![cfg(all(feature = "client", feature = "server"))]

use penguin_mux::timing::OptionalDuration;
use rusty_penguin_lib::arg::{ClientArgs, Remote, ServerUrl};
use rusty_penguin_lib::client::{HandlerResources, client_main_inner};
use std::str::FromStr;
use std::time::Duration;
use tokio::io::AsyncWriteExt;
use tokio::net::TcpStream;

const NAME: &str = "penguin-r5-a2-server.invalid";
const LOCAL: u16 = 42031;

#[tokio::test(flavor = "multi_thread", worker_threads = 4)]
async fn temporary_name_resolution_failure_is_retried() {
    rusty_penguin_lib::tls::init_crypto_provider();
    // What does the resolver of this machine say? Only `EAI_AGAIN` is the case at issue.
    let lookup = tokio::net::lookup_host((NAME, 80)).await.map(|a| a.collect::<Vec<_>>());
    let Err(lookup_err) = lookup else {
        eprintln!("SKIP: {NAME} resolves here: {lookup:?}");
        return;
    };
    eprintln!("resolver says: kind={:?}, {lookup_err}", lookup_err.kind());
    if !lookup_err.to_string().contains("Temporary failure") {
        eprintln!("SKIP: the resolver of this machine does not report a temporary failure");
        return;
    }

    let cargs: &'static ClientArgs = Box::leak(Box::new(ClientArgs {
        server: ServerUrl::from_str(&format!("ws://{NAME}:8080/ws")).unwrap(),
        remote: vec![Remote::from_str(&format!("127.0.0.1:{LOCAL}:127.0.0.1:9")).unwrap()],
        keepalive: OptionalDuration::NONE,
        // never give up
        max_retry_count: 0,
        max_retry_interval: 400,
        handshake_timeout: OptionalDuration::from_secs(5),
        channel_timeout: OptionalDuration::from_secs(5),
        ..Default::default()
    }));
    let (hr, s, d) = HandlerResources::create();
    let hr: &'static HandlerResources = Box::leak(Box::new(hr));
    let client = tokio::spawn(client_main_inner(cargs, hr, s, d));

    // A local connection made while the tunnel is down has to wait for the tunnel
    tokio::time::sleep(Duration::from_millis(300)).await;
    let local = TcpStream::connect(("127.0.0.1", LOCAL)).await;

    // 200 + 400 + 400 + ... ms: several attempts fit into three seconds
    tokio::time::sleep(Duration::from_secs(3)).await;
    if client.is_finished() {
        let result = client.await.unwrap();
        let listener_open = TcpStream::connect(("127.0.0.1", LOCAL)).await.is_ok();
        let mut waiting = String::from("could not even connect");
        if let Ok(mut local) = local {
            waiting = match local.write_all(b"x").await {
                Ok(()) => "still open".into(),
                Err(e) => format!("dropped ({e})"),
            };
        }
        panic!(
            "max_retry_count = 0 and a *temporary* resolver failure, yet the client ended: \
             {result:?}\n  (displayed: {})\n  local listener still open: {listener_open}\n  \
             local connection that waited for the tunnel: {waiting}",
            result
                .as_ref()
                .err()
                .map(ToString::to_string)
                .unwrap_or_default()
        );
    }
    client.abort();
}

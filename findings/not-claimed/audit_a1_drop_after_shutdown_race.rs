//! Audit demonstration (round 5, A1).
//!
//! A stream that was shut down locally (`Finish` sent) and then dropped while `Push` frames of
//! the peer are still on their way is removed *silently*: the frames that reach the task before
//! it has processed the drop notification are thrown away (`TrySendError::Closed` branch of
//! `process_frame`), and the drop notification itself carries `unread == false`, so no `Reset`
//! is sent either. The peer has spent its whole window on those frames and is told nothing:
//! its writer waits for credit forever.
//!
//! Three orderings of the same events are run. Only the middle one (frames arrive between
//! `MuxStream::drop` and the task handling it) hangs.
//
// SPDX-License-Identifier: Apache-2.0 OR GPL-3.0-or-later

use penguin_mux::config::Options;
use penguin_mux::ws::{Message, WebSocket};
use penguin_mux::{Multiplexor, MuxStream};
use std::sync::atomic::{AtomicBool, Ordering};
use std::sync::{Arc, Mutex};
use std::task::{Context, Poll};
use std::time::Duration;
use tokio::io::{AsyncReadExt, AsyncWriteExt};
use tokio::sync::mpsc;

/// In-memory WebSocket: one unbounded queue per direction, never blocks, never fails
/// unless the other end is gone.
struct MemWs {
    tx: Option<mpsc::UnboundedSender<Message>>,
    rx: mpsc::UnboundedReceiver<Message>,
}

impl WebSocket for MemWs {
    fn poll_ready_unpin(&mut self, _cx: &mut Context<'_>) -> Poll<Result<(), penguin_mux::Error>> {
        Poll::Ready(if self.tx.is_some() {
            Ok(())
        } else {
            Err(penguin_mux::Error::Closed)
        })
    }
    fn start_send_unpin(&mut self, item: Message) -> Result<(), penguin_mux::Error> {
        self.tx
            .as_ref()
            .ok_or(penguin_mux::Error::Closed)?
            .send(item)
            .or(Err(penguin_mux::Error::Closed))
    }
    fn poll_flush_unpin(&mut self, _cx: &mut Context<'_>) -> Poll<Result<(), penguin_mux::Error>> {
        Poll::Ready(Ok(()))
    }
    fn poll_close_unpin(&mut self, _cx: &mut Context<'_>) -> Poll<Result<(), penguin_mux::Error>> {
        if let Some(tx) = self.tx.take() {
            tx.send(Message::Close).ok();
        }
        Poll::Ready(Ok(()))
    }
    fn poll_next_unpin(
        &mut self,
        cx: &mut Context<'_>,
    ) -> Poll<Option<Result<Message, penguin_mux::Error>>> {
        self.rx.poll_recv(cx).map(|m| m.map(Ok))
    }
}

/// What the test controls of the B -> A direction of the link.
struct Link {
    /// While `true`, what B sends is parked in `held` instead of being delivered to A
    hold: Arc<AtomicBool>,
    held: Arc<Mutex<Vec<Message>>>,
    /// Delivers a message to A's `Source`
    a_in: mpsc::UnboundedSender<Message>,
}

impl Link {
    /// Hand everything that is parked to A's `Source`. Synchronous: A's task does not run
    /// before the caller yields.
    fn release(&self) -> usize {
        let mut held = self.held.lock().unwrap();
        let n = held.len();
        for m in held.drain(..) {
            self.a_in.send(m).unwrap();
        }
        n
    }
}

const RWND: u32 = 4;

/// Two real multiplexors (A requests, B accepts) with one established stream,
/// B having spent its whole window (4 frames) on frames that are parked on the link.
async fn setup() -> (Multiplexor, Multiplexor, MuxStream, MuxStream, Link) {
    let (a_out, b_in) = mpsc::unbounded_channel();
    let (b_out, mut b_out_rx) = mpsc::unbounded_channel::<Message>();
    let (a_in_tx, a_in) = mpsc::unbounded_channel();
    let hold = Arc::new(AtomicBool::new(false));
    let held = Arc::new(Mutex::new(Vec::new()));
    let link = Link {
        hold: hold.clone(),
        held: held.clone(),
        a_in: a_in_tx.clone(),
    };
    // B -> A relay
    tokio::spawn(async move {
        while let Some(m) = b_out_rx.recv().await {
            if hold.load(Ordering::SeqCst) {
                held.lock().unwrap().push(m);
            } else if a_in_tx.send(m).is_err() {
                break;
            }
        }
    });
    let options = Options::new().rwnd(RWND).default_rwnd_threshold(RWND);
    let a = Multiplexor::new_with_opt(
        MemWs {
            tx: Some(a_out),
            rx: a_in,
        },
        options,
        None,
    );
    let b = Multiplexor::new_with_opt(
        MemWs {
            tx: Some(b_out),
            rx: b_in,
        },
        options,
        None,
    );
    let (sa, sb) = tokio::join!(a.new_stream_channel(b"target", 80), b.accept_stream_channel());
    let (mut sa, mut sb) = (sa.unwrap(), sb.unwrap());
    // Sanity: the stream works in both directions
    sa.write_all(b"ping").await.unwrap();
    let mut buf = [0u8; 4];
    sb.read_exact(&mut buf).await.unwrap();
    assert_eq!(&buf, b"ping");

    // A is done sending (half-close); B sees EOF but may go on sending, as with TCP
    sa.shutdown().await.unwrap();
    assert_eq!(sb.read(&mut buf).await.unwrap(), 0);

    // From now on what B sends stays on the wire
    link.hold.store(true, Ordering::SeqCst);
    for i in 0..RWND {
        // One frame, one unit of credit each; B's window (A's rwnd = 4) is used up after these
        sb.write_all(&[i as u8; 16]).await.unwrap();
    }
    tokio::time::sleep(Duration::from_millis(100)).await;
    assert_eq!(link.held.lock().unwrap().len(), RWND as usize);
    (a, b, sa, sb, link)
}

/// B's next write needs credit. It must not wait forever: either A grants credit
/// or B learns (Reset -> BrokenPipe) that nobody reads this stream any more.
async fn b_writes_once_more(mut sb: MuxStream) -> std::io::Result<()> {
    match tokio::time::timeout(Duration::from_secs(3), sb.write_all(b"one more frame")).await {
        Ok(r) => r,
        Err(_) => panic!(
            "B's writer is still waiting for credit 3 s after A dropped the stream: \
             A sent neither `Acknowledge` nor `Reset`"
        ),
    }
}

/// Control 1: the frames reach A's stream *before* the application drops it
/// (`unread == true`): A resets the flow, B's writer fails with BrokenPipe.
#[tokio::test]
async fn control_frames_delivered_before_the_drop() {
    let (_a, _b, sa, sb, link) = setup().await;
    assert_eq!(link.release(), RWND as usize);
    link.hold.store(false, Ordering::SeqCst);
    tokio::time::sleep(Duration::from_millis(100)).await; // A's task dispatches them
    drop(sa);
    let r = b_writes_once_more(sb).await;
    assert_eq!(r.unwrap_err().kind(), std::io::ErrorKind::BrokenPipe);
}

/// Control 2: the frames reach A *after* its task has processed the drop: they hit an unknown
/// flow, A answers `Reset`, B's writer fails with BrokenPipe.
#[tokio::test]
async fn control_frames_delivered_after_the_drop_was_processed() {
    let (_a, _b, sa, sb, link) = setup().await;
    drop(sa);
    tokio::time::sleep(Duration::from_millis(100)).await; // A's task processes the drop
    assert_eq!(link.release(), RWND as usize);
    link.hold.store(false, Ordering::SeqCst);
    let r = b_writes_once_more(sb).await;
    assert_eq!(r.unwrap_err().kind(), std::io::ErrorKind::BrokenPipe);
}

/// The defect: the frames are in A's `Source` when the application drops the stream, i.e. they
/// reach A's task after `MuxStream::drop` but before the task has processed the notification.
#[tokio::test]
async fn frames_in_flight_when_a_finished_stream_is_dropped() {
    let (_a, _b, sa, sb, link) = setup().await;
    // No `.await` between the two statements: A's task sees both at its next poll, and it
    // looks at the `Source` before it looks at the dropped flows.
    assert_eq!(link.release(), RWND as usize);
    drop(sa);
    link.hold.store(false, Ordering::SeqCst);
    let r = b_writes_once_more(sb).await;
    assert_eq!(r.unwrap_err().kind(), std::io::ErrorKind::BrokenPipe);
}

//! Round 5 / A2 demonstration (property C01, UDP remote).
//!
//! A UDP remote given without a local host (`5300:host:53/udp`, the form of the README) is
//! bound to the wildcard address. Replies are then sent with `send_to` on that socket, so
//! the kernel picks their source address from its routing table instead of the address the
//! local client sent its datagram to. On a host with more than one local address the reply
//! comes "from" another address than the one the client talks to: a connected UDP socket
//! never sees it, and resolvers, QUIC, WireGuard etc. discard it.
//!
//! Linux treats all of 127.0.0.0/8 as local, which makes this reproducible without
//! privileges: the client sends to 127.0.0.2, the reply comes from 127.0.0.1.
#![cfg(all(feature = "client", feature = "server", target_os = "linux"))]

use penguin_mux::timing::OptionalDuration;
use rusty_penguin_lib::arg::{ClientArgs, Remote, ServerArgs, ServerUrl};
use rusty_penguin_lib::client::{HandlerResources, client_main_inner};
use std::str::FromStr;
use std::time::Duration;
use tokio::net::UdpSocket;

const SERVER: u16 = 42021;
const LOCAL: u16 = 42022;
const TARGET: u16 = 42023;

#[tokio::test(flavor = "multi_thread", worker_threads = 4)]
async fn udp_reply_comes_from_the_address_the_client_sent_to() {
    rusty_penguin_lib::tls::init_crypto_provider();
    let sargs: &'static ServerArgs = Box::leak(Box::new(ServerArgs {
        host: vec!["127.0.0.1".to_string()],
        port: vec![SERVER],
        not_found_resp: "404".to_string(),
        timeout: OptionalDuration::from_secs(5),
        ..Default::default()
    }));
    tokio::spawn(rusty_penguin_lib::server::server_main(sargs));
    // No local host: the parser fills in the unspecified address, as for `53:example.com:53/udp`
    let remote = Remote::from_str(&format!("{LOCAL}:127.0.0.1:{TARGET}/udp")).unwrap();
    assert!(
        remote.to_string().starts_with("0.0.0.0:") || remote.to_string().starts_with("[::]:"),
        "the default local host of a UDP remote is the wildcard address, got {remote}"
    );
    let cargs: &'static ClientArgs = Box::leak(Box::new(ClientArgs {
        server: ServerUrl::from_str(&format!("ws://127.0.0.1:{SERVER}/ws")).unwrap(),
        remote: vec![remote],
        keepalive: OptionalDuration::NONE,
        max_retry_count: 0,
        max_retry_interval: 200,
        handshake_timeout: OptionalDuration::from_secs(5),
        channel_timeout: OptionalDuration::from_secs(5),
        ..Default::default()
    }));
    let (hr, s, d) = HandlerResources::create();
    let hr: &'static HandlerResources = Box::leak(Box::new(hr));
    tokio::spawn(client_main_inner(cargs, hr, s, d));

    // Echo target
    let target = UdpSocket::bind(("127.0.0.1", TARGET)).await.unwrap();
    tokio::spawn(async move {
        let mut b = vec![0u8; 2048];
        loop {
            let (n, a) = target.recv_from(&mut b).await.unwrap();
            target.send_to(&b[..n], a).await.unwrap();
        }
    });
    tokio::time::sleep(Duration::from_millis(1500)).await;

    // Local client 1 talks to the remote at 127.0.0.1, local client 2 at 127.0.0.2
    let one = UdpSocket::bind("127.0.0.1:0").await.unwrap();
    let two = UdpSocket::bind("127.0.0.1:0").await.unwrap();
    one.send_to(b"query one", ("127.0.0.1", LOCAL)).await.unwrap();
    two.send_to(b"query two", ("127.0.0.2", LOCAL)).await.unwrap();
    let mut buf = [0u8; 64];
    let (n, from) = tokio::time::timeout(Duration::from_secs(5), one.recv_from(&mut buf))
        .await
        .expect("client 1 got no reply")
        .unwrap();
    assert_eq!(&buf[..n], b"query one");
    assert_eq!(from.to_string(), format!("127.0.0.1:{LOCAL}"));
    let (n, from) = tokio::time::timeout(Duration::from_secs(5), two.recv_from(&mut buf))
        .await
        .expect("client 2 got no reply")
        .unwrap();
    assert_eq!(&buf[..n], b"query two");
    assert_eq!(
        from.to_string(),
        format!("127.0.0.2:{LOCAL}"),
        "client 2 sent its datagram to 127.0.0.2:{LOCAL} but the reply came from {from}"
    );
}

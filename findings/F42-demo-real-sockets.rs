//! Round 5 / A2 demonstration (property C01, HTTP CONNECT entry point).
//!
//! A local client that sends its CONNECT request and closes its sending side before the
//! proxy has answered (it has nothing to send, or has pipelined all it had to send) is
//! dropped by the HTTP entry point: it receives neither the `200` nor a single byte from the
//! target. The same client is served through the SOCKS5 entry point of the same client.
#![cfg(all(feature = "client", feature = "server", feature = "http-proxy"))]

use penguin_mux::timing::OptionalDuration;
use rusty_penguin_lib::arg::{ClientArgs, Remote, ServerArgs, ServerUrl};
use rusty_penguin_lib::client::{HandlerResources, client_main_inner};
use std::str::FromStr;
use std::time::Duration;
use tokio::io::{AsyncReadExt, AsyncWriteExt};
use tokio::net::{TcpListener, TcpStream};

const SERVER: u16 = 42011;
const SOCKS: u16 = 42012;
const HTTP: u16 = 42013;
const DAYTIME: u16 = 42014;
const ECHO: u16 = 42015;

fn start_tunnel() {
    rusty_penguin_lib::tls::init_crypto_provider();
    let sargs: &'static ServerArgs = Box::leak(Box::new(ServerArgs {
        host: vec!["127.0.0.1".to_string()],
        port: vec![SERVER],
        not_found_resp: "404".to_string(),
        timeout: OptionalDuration::from_secs(5),
        ..Default::default()
    }));
    tokio::spawn(rusty_penguin_lib::server::server_main(sargs));
    let cargs: &'static ClientArgs = Box::leak(Box::new(ClientArgs {
        server: ServerUrl::from_str(&format!("ws://127.0.0.1:{SERVER}/ws")).unwrap(),
        remote: vec![
            Remote::from_str(&format!("127.0.0.1:{SOCKS}:socks")).unwrap(),
            Remote::from_str(&format!("127.0.0.1:{HTTP}:http")).unwrap(),
        ],
        keepalive: OptionalDuration::NONE,
        max_retry_count: 0,
        max_retry_interval: 200,
        handshake_timeout: OptionalDuration::from_secs(5),
        channel_timeout: OptionalDuration::from_secs(5),
        ..Default::default()
    }));
    let (hr, s, d) = HandlerResources::create();
    let hr: &'static HandlerResources = Box::leak(Box::new(hr));
    tokio::spawn(client_main_inner(cargs, hr, s, d));
}

/// Everything the local client receives until its connection is closed
async fn read_all(s: &mut TcpStream, what: &str) -> Vec<u8> {
    let mut out = Vec::new();
    tokio::time::timeout(Duration::from_secs(10), s.read_to_end(&mut out))
        .await
        .unwrap_or_else(|_| panic!("{what}: the local connection was left hanging"))
        .ok();
    out
}

#[tokio::test(flavor = "multi_thread", worker_threads = 4)]
async fn http_connect_client_that_half_closes_before_the_200_is_dropped() {
    start_tunnel();
    // Target 1: like `daytime`, sends and closes whatever the peer does
    let l = TcpListener::bind(("127.0.0.1", DAYTIME)).await.unwrap();
    tokio::spawn(async move {
        loop {
            let (mut s, _) = l.accept().await.unwrap();
            tokio::spawn(async move {
                s.write_all(b"the time is now").await.unwrap();
                s.shutdown().await.unwrap();
                let mut sink = Vec::new();
                let _ = s.read_to_end(&mut sink).await;
            });
        }
    });
    // Target 2: echo until end-of-stream, then close
    let l = TcpListener::bind(("127.0.0.1", ECHO)).await.unwrap();
    tokio::spawn(async move {
        loop {
            let (mut s, _) = l.accept().await.unwrap();
            tokio::spawn(async move {
                let (mut r, mut w) = s.split();
                let _ = tokio::io::copy(&mut r, &mut w).await;
                let _ = w.shutdown().await;
            });
        }
    });
    tokio::time::sleep(Duration::from_millis(1500)).await;

    // Reference: the same behaviour through SOCKS5 (greeting, request, payload and FIN at once)
    let mut s = TcpStream::connect(("127.0.0.1", SOCKS)).await.unwrap();
    let mut req = vec![5, 1, 0, 5, 1, 0, 1, 127, 0, 0, 1];
    req.extend(ECHO.to_be_bytes());
    req.extend(b"PIPELINED");
    s.write_all(&req).await.unwrap();
    s.shutdown().await.unwrap();
    let out = read_all(&mut s, "socks5").await;
    assert_eq!(&out[..2], &[5, 0], "socks5 method selection");
    assert_eq!(&out[2..4], &[5, 0], "socks5 reply");
    assert_eq!(&out[12..], b"PIPELINED", "socks5: echo of the pipelined bytes");

    // HTTP CONNECT, half-close right behind the request, nothing to send
    let mut s = TcpStream::connect(("127.0.0.1", HTTP)).await.unwrap();
    s.write_all(
        format!("CONNECT 127.0.0.1:{DAYTIME} HTTP/1.1\r\nHost: 127.0.0.1:{DAYTIME}\r\n\r\n")
            .as_bytes(),
    )
    .await
    .unwrap();
    s.shutdown().await.unwrap();
    let out1 = read_all(&mut s, "http connect (daytime)").await;
    let text1 = String::from_utf8_lossy(&out1).to_string();

    // HTTP CONNECT, pipelined payload and half-close right behind the request
    let mut s = TcpStream::connect(("127.0.0.1", HTTP)).await.unwrap();
    s.write_all(
        format!("CONNECT 127.0.0.1:{ECHO} HTTP/1.1\r\nHost: 127.0.0.1:{ECHO}\r\n\r\nPIPELINED")
            .as_bytes(),
    )
    .await
    .unwrap();
    s.shutdown().await.unwrap();
    let out2 = read_all(&mut s, "http connect (echo)").await;
    let text2 = String::from_utf8_lossy(&out2).to_string();

    assert!(
        text1.starts_with("HTTP/1.1 200") && text1.ends_with("\r\n\r\nthe time is now"),
        "HTTP CONNECT + FIN: expected `200` and the target's bytes, the client received {text1:?}"
    );
    assert!(
        text2.starts_with("HTTP/1.1 200") && text2.ends_with("\r\n\r\nPIPELINED"),
        "HTTP CONNECT + payload + FIN: expected `200` and the echo, the client received {text2:?}"
    );
}

T_DST = "deterministic simulation with fault injection: seeded schedules + simulated link, oracle over recorded history"
claim("C02","muxsim","exploration",
 "Seeded search over schedules/configurations of two real endpoints; byte-stream model per stream and direction checked at every read and at EOF, plus wire-level content check with an independent codec. Sampling, not proof.",
 "Trusts the in-memory link to model tokio-tungstenite's contract (reliable FIFO per direction) and the seeded executor's poll-atomic granularity.",
 T_DST, "DESIGN.md §6 C02")
for p in ["C01","C03","C04","C05","C06","C07","C08","C10","C11","C12","C13","C14","C15","C16","C18","C19"]:
    na(p, "check not built yet in this session (planned, see DESIGN.md §6); not claimed until its command exists")
na("C09","pure codec function of one complete buffer (quantifier: inputs only): no schedule, clock, fault or interleaving for a simulator to decide; see DESIGN.md §6 C09")
na("C17","outcome is a function of the TLS configuration cell alone; handshake randomness has no seam, so one seed cannot be one repeatable execution; see DESIGN.md §6 C17")
na("C20","sequential data structure compared with Vec<u8>: no concurrency, time, I/O or fault to simulate; see DESIGN.md §6 C20")

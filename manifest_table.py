T_DST = "deterministic simulation with fault injection: seeded schedules + simulated link, oracle over recorded history"
claim("C02","muxsim","exploration",
 "Seeded search over schedules/configurations of two real endpoints; byte-stream model per stream and direction checked at every read and at EOF, plus wire-level content check with an independent codec. Sampling, not proof.",
 "Trusts the in-memory link to model tokio-tungstenite's contract (reliable FIFO per direction) and the seeded executor's poll-atomic granularity.",
 T_DST, "DESIGN.md §6 C02")
NOTE_E1 = "Trusts the in-memory link to model tokio-tungstenite's observable contract (reliable FIFO per direction, auto-Pong, Close semantics) and the seeded executor's poll-atomic granularity; flow ids are read off the wire, payload content is a function of (stream, direction, offset)."
claim("C03","muxsim","exploration",
 "Black-box credit accountant over the wire monitor's history (independent codec): outstanding Push <= advertised window at every Push, one non-empty write = one Push, acknowledgements never ahead of consumption, no Reset of a live established flow; sampled over schedules, option pairs and racing-ack workloads.",
 NOTE_E1, T_DST, "DESIGN.md §6 C03")
claim("C04","muxsim","exploration",
 "Liveness decided at exact quiescence of the simulated system (no step bound): all 36x36 (rwnd, threshold) option pairs enumerated by run index with fresh workloads/schedules, plus a starved-stream family, unread datagrams, concurrent acceptors; and, in every run without faults, every byte accepted by a write must have become readable when the reader reached end-of-stream (a stream reset under a reader that keeps reading loses data without stalling anybody); sampling over schedules.",
 NOTE_E1, T_DST + "; liveness = pending-operation ledger at exact quiescence", "DESIGN.md §6 C04")
claim("C05","muxsim","exploration",
 "Close/EOF histories against a sequential model: every end-of-stream needs an earlier terminating event of the peer, completeness after clean shutdown, BrokenPipe after shutdown / consumed Reset, no Push after Finish on the wire.",
 NOTE_E1, T_DST, "DESIGN.md §6 C05")
claim("C06","muxsim","exploration",
 "Open/transfer/close cycles with every close style and forced re-use of the same flow id after both applications let go; prefix/EOF rules for the aborted peer, fresh byte/credit models for the re-opened stream, black-box slot-leak probe.",
 NOTE_E1, T_DST, "DESIGN.md §6 C06")
claim("C07","muxsim","exploration",
 "Crossing opens with scripted colliding flow-id generators on both sides; request<->accept matching on exact host bytes and port, wire discipline of Connect ids and windows, behavioural initial-credit check, retry bound. Second part (loom, same command): application threads inside the synchronous id allocation against each other and against the connection task accepting the peer's Connect, generator scripted to collide, every interleaving up to the preemption bound.",
 NOTE_E1, T_DST, "DESIGN.md §6 C07, §13.9")
claim("C11","muxsim","exploration",
 "Datagram bursts over the full field domain against an exact bounded-queue model evaluated on the global event order, with checked stream traffic in parallel.",
 NOTE_E1, T_DST, "DESIGN.md §6 C11")
claim("C15","muxsim","exploration",
 "Concurrent bind requests with seeded answer orders/kinds matched to the responder's view through unique hosts; second family forces flow-id re-use between binds and streams.",
 NOTE_E1, T_DST, "DESIGN.md §6 C15")
claim("C08","muxsim","fault_enumeration",
 "One end cause (forged Close, cut of either/both directions in every mode, invalid frame, local handle drop) at a seeded scheduling round of a close/abort workload with pending calls of every kind; plus a crash-point sweep that fixes plan and schedule and moves the trigger over every scheduling round of that execution. Judged: every pending call at an endpoint whose connection ended has resolved at quiescence, the task returned; after a local drop every frame queued before it is on the wire before Close. Further families: accept backlog full at the failing endpoint; keepalive expiry as the end cause (silent link, also around an orderly end); the task future dropped (AbortTask); a handle dropped with a backlog on a slow link (one side or both), also with the dropping endpoint's Sink failing during the flush; the peer's Close followed by a transport that goes silent before it ends (what a WebSocket client waits for). Second part (loom, same command): a request made on one thread while the task's future is dropped on another, every interleaving up to the preemption bound.",
 NOTE_E1 + " A peer endpoint whose application never accepts streams (and so wedges its own receive loop) is outside the premise: both applications keep accepting.", T_DST + "; crash-point sweep over scheduling rounds", "DESIGN.md §6 C08")
claim("C10","muxsim","fault_enumeration",
 "All single frames and all ordered pairs over 12 frame kinds x 8 flow-id classes (every slot state) are enumerated against a real endpoint under seeded schedules, random longer sequences beyond, optional invalid message at the end; Reset discipline per flow id against a reference model of what PROTOCOL.md fixes, bystander stream models, liveness probe.",
 "Only reactions PROTOCOL.md or the statement fix are judged; others taint the flow id and are recorded. " + NOTE_E1, T_DST + "; bounded-exhaustive frame-pair enumeration", "DESIGN.md §6 C10")
claim("C13","muxsim","fault_enumeration",
 "The real bridge future is driven against a scripted local byte stream (every call's outcome decided by the plan: chunking, Pending with/without wake, EOF, error on read/write/flush/shutdown, short writes) and a scripted raw peer (data, Finish, Reset, credit starvation); prefix/equality of relayed bytes, credit per frame, half-close propagation, completion with true byte counts, and 'a failed operation completes the bridge by quiescence'.",
 NOTE_E1, T_DST + "; scripted I/O fault injection", "DESIGN.md §6 C13")
claim("C16","muxsim","exploration",
 "Keepalive under the paused virtual clock through the TimestampProvider seam: exact ping schedule, dead-peer detection within [T, T+I] of the last pong (event order) followed by resolution of every pending call, no timeout for peers answering within T (known finding: pong gaps above T), disabled values; second family: a Sink kept busy by a datagram burst for several timeouts on a slow link - a due Ping waits only for what the Sink has already taken, never for the queue.",
 "tokio's paused clock is the only clock; a dead peer is a transport that returns nothing. One listed known finding (see known_findings.txt).", T_DST + "; discrete-event virtual time", "DESIGN.md §6 C16")
claim("C18","muxsim","fault_enumeration",
 "SOCKS readers/writers polled against a scripted byte stream: reference-grammar requests under seeded chunkings with trailing bytes, cut at every byte offset x {EOF, error, left open} (sweep family), reply writers under partial/failed writes, UDP relay header build/parse against an independent RFC 1928 parser.",
 "Addresses compared by value; SOCKS4 0.0.0.0 / 0.x.y.z not judged. The UDP header round trip and parse are pure functions checked alongside because the statement lists them.", "deterministic simulation with fault injection on the byte-stream seam (scripted AsyncRead/AsyncBufRead/AsyncWrite), cut-offset enumeration", "DESIGN.md §6 C18")
claim("C12","loomsim","exploration",
 "108 scenarios (initial credit x writer polls x scripted acknowledge/close orders) each explored exhaustively by loom's DFS over all interleavings of the atomic operations and all C11-permitted load values, up to the preemption bound; oracles: no lost wake-up, credit conservation, no permission without credit, None after close.",
 "Exhaustive per scenario up to loom's preemption bound (3 quick / 5 thorough), two threads; the rest of the connection task is replaced by the scripted calls on the other thread.", "controlled-scheduler simulation of threads (loom) over the crate's own sync seam; replay = scenario + loom's deterministic DFS", "DESIGN.md §6 C12")
NOTE_E4 = "Trusts penguin-simnet to behave like the part of tokio::net the crate uses (in-memory pipes: ordered, reliable TCP with back-pressure, half-close, refusal, reset; UDP with per-datagram latency) and tokio's paused clock + seeded current_thread scheduler for determinism; TLS is not simulated; payload bytes are excluded from the execution digest (tungstenite masks come from the OS RNG)."
claim("C19","syssim","fault_enumeration",
 "The real client runs against a scripted server (refuse / stall / HTTP 403 / orderly close after d / TCP reset after d / ignore after handshake / real healthy server, one behaviour per attempt) under the paused clock: every retry instant is compared exactly with the closed back-off formula, the give-up point with max_retry_count, and parked local connections must be echoed by the next healthy connection.",
 NOTE_E4, "deterministic whole-system simulation (real client + server over a simulated tokio::net, virtual time) with scripted connection-lifecycle faults", "DESIGN.md §6 C19")
claim("C01","syssim","exploration",
 "Real client + real server over the simulated network between RFC-written local clients (fixed TCP / Unix remotes, SOCKS4/4a/5, HTTP CONNECT, UDP remotes, SOCKS5 UDP ASSOCIATE) and simulated targets; byte-stream model per direction, half-close propagation, closed-not-hanging on refuse/early close, UDP replies to exactly the originating client from the address it sent to, RFC 1928 header well-formedness; seeded latency, partial I/O, spurious Pending, tiny socket buffers, and UDP loss/dup/reorder in a separate relaxed configuration.",
 NOTE_E4 + " The production window (512 frames) cannot be changed without a hook, so window dynamics are exercised only by the occasional 6 MiB transfer; they are decided in C02-C04.", "deterministic whole-system simulation (real client + server over a simulated tokio::net, virtual time) with network fault injection", "DESIGN.md §6 C01")
claim("C14","syssim","exploration",
 "The gate is driven through a live hyper connection over the simulated network: all requests within two factor deviations of the valid one x 4 configurations are enumerated (2540 cells), higher orders sampled, each under a seeded fragmentation, each with its twin on an unknown path; reference predicate for 101, RFC 6455 accept hash, a real tunnel after 101, byte-for-byte indistinguishability otherwise.",
 NOTE_E4 + " The decisive dimension is an input/configuration matrix; the simulator contributes the live connection and the fragmentation schedule. No backend configured (404 case only).", "deterministic whole-system simulation: request-matrix enumeration through real hyper over a simulated tokio::net with seeded fragmentation", "DESIGN.md §6 C14")
na("C09","pure codec function of one complete buffer (quantifier: inputs only): no schedule, clock, fault or interleaving for a simulator to decide; see DESIGN.md §6 C09")
na("C17","outcome is a function of the TLS configuration cell alone; handshake randomness has no seam, so one seed cannot be one repeatable execution; see DESIGN.md §6 C17")
na("C20","sequential data structure compared with Vec<u8>: no concurrency, time, I/O or fault to simulate; see DESIGN.md §6 C20")

#!/bin/bash
# regress_isolated.sh [name-filter]: like regress_seeded.sh, but on a private copy of the repository
# (a git worktree of /repo's HEAD under $SCR) and of the simulators (paths rewritten), so that /repo
# and /verif/sim stay free while it runs. For every seeded change: apply, rebuild, run the quick
# checks named in its meta.json (detected_by), undo. exit 1 if a change is no longer detected by a
# check that used to detect it. Removes its scratch copies at the end.
# SEEDED_ROOT=<dir> takes the changes from another directory (candidates being triaged: each
# <name>/patch.diff + meta.json whose detected_by keys name the checks to try); SCR=<dir> moves the scratch copies.
SCR=${SCR:-/root/scratch/regress}
REPO2=$SCR/repo; SIM2=$SCR/sim; V2=$SCR/verif
rm -rf "$SCR"; mkdir -p "$SCR" "$V2"
git -C /repo worktree prune
git -C /repo worktree add --detach "$REPO2" HEAD -q || exit 2
rsync -a --exclude target /verif/sim/ "$SIM2/"
grep -rl "/repo" "$SIM2" --include=Cargo.toml --include=gen_shadow.py | xargs sed -i "s#/repo#$REPO2#g"
cp /verif/known_findings.txt "$V2/"; mkdir -p "$V2/loom"
rsync -a --exclude target --exclude muxshadow /verif/shuttle/ "$V2/shuttle/"
( cd "$SIM2" && ./gen_shadow.sh && cargo build --release --offline -q 2>&1 | grep -E "^error" -A 6 | head -20 )
FAIL=0
for d in "${SEEDED_ROOT:-/verif/seeded}"/*${1:-}*/; do
  n=$(basename "$d")
  ids=$(python3 -c "import json; print(' '.join(json.load(open('$d/meta.json'))['detected_by'].keys()))")
  [ -z "$ids" ] && { echo "$n: no check listed"; continue; }
  git -C "$REPO2" apply "$d/patch.diff" 2>/dev/null || { echo "$n: PATCH PROBLEM (does not apply)"; FAIL=1; continue; }
  ( cd "$SIM2" && ./gen_shadow.sh && cargo build --release --offline -q 2>&1 | grep -E "^error" -A 6 | head -20 )
  res=""
  for id in $ids; do
    case "$id" in
      C12) out=$(VERIF_REPO="$REPO2" VERIF_DIR="$V2" /verif/loom/run.sh C12 --tier quick 2>&1; VERIF_REPO="$REPO2" VERIF_DIR="$V2" "$V2/shuttle/run.sh" C12 --tier quick 2>&1);;
      C12S|C07S|C08S) out=$(VERIF_REPO="$REPO2" VERIF_DIR="$V2" "$V2/shuttle/run.sh" ${id%S} --tier quick 2>&1);;
      C07L|C08L) out=$(VERIF_REPO="$REPO2" VERIF_DIR="$V2" /verif/loom/run.sh ${id%L} --tier quick 2>&1);;
      *) BIN=muxsim; case "$id" in C01|C14|C19) BIN=syssim;; esac
         out=$(VERIF_DIR="$V2" "$SIM2/target/release/$BIN" check "$id" --tier quick --no-evidence 2>&1);;
    esac
    if echo "$out" | grep -q "VIOLATION property=${id%[LS]}\|^violation scenario"; then res="$res $id:caught"; [ -n "${SHOW:-}" ] && echo "$out" | grep -m2 "^violation" | cut -c1-300; else res="$res $id:MISSED"; FAIL=1; fi
    rm -rf "$V2/replays"
  done
  echo "$n:$res"
  git -C "$REPO2" checkout -- . ; git -C "$REPO2" clean -fdq
done
git -C /repo worktree remove --force "$REPO2"; rm -rf "$SCR"
exit $FAIL

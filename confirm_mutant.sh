#!/bin/bash
# confirm_mutant.sh <worktree> <cargo package> <demo test target>
# Re-verifies a seeded change in its scratch worktree: suite passes with it (isolated network
# namespace: the suite binds fixed localhost ports), demo fails with it, demo passes without it.
WT="$1"; PKG="$2"; DEMO="$3"
cd "$WT" || exit 2
git apply -R --check MUTANT.diff 2>/dev/null || git apply MUTANT.diff || { echo "cannot apply mutant"; exit 2; }
echo "--- suite with the change (isolated netns)"
unshare -n sh -c "ip link set lo up && cargo test --workspace --no-fail-fast --offline 2>&1" > "$WT/confirm_suite.log"
grep -E "^test result|FAILED|failed" "$WT/confirm_suite.log" | grep -v "^test result: ok. 0 passed" | head -30
echo "--- demo with the change (must fail)"
unshare -n sh -c "ip link set lo up && cargo test -p $PKG --offline --test $DEMO 2>&1" | grep -E "^test |test result" | head
echo "--- demo without the change (must pass)"
git apply -R MUTANT.diff
unshare -n sh -c "ip link set lo up && cargo test -p $PKG --offline --test $DEMO 2>&1" | grep -E "^test |test result" | head
git apply MUTANT.diff

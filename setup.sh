#!/bin/bash
# Build the whole framework from files on disk only (offline).
set -e
HERE="$(cd "$(dirname "$0")" && pwd)"
cd "$HERE"
export CARGO_NET_OFFLINE=true
./sim/gen_shadow.sh
( cd sim && cargo build --release --offline 2>&1 | tail -3 )
# loom models (the crate's own test target under --cfg loom --cfg penguin_rs_verif)
( cd /repo && RUSTFLAGS="--cfg loom --cfg penguin_rs_verif" CARGO_TARGET_DIR="$HERE/loom-target" cargo test -p penguin-mux --lib --release --offline --no-run 2>&1 | tail -2 )
# the same models with `loom` resolved to the shuttle shim (shadow manifest of penguin-mux)
python3 shuttle/gen_shadow_mux.py
cp /repo/Cargo.lock shuttle/muxshadow/Cargo.lock; cp /repo/Cargo.lock shuttle/muxshadow/Cargo.lock.src
( cd shuttle/muxshadow && cargo test --lib --release --offline --no-run 2>&1 | tail -2 )

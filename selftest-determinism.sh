#!/bin/bash
# Determinism self-check: every engine, N runs per property, 2 fresh processes x worker counts {1, 16}
# (and 5): the per-run execution digests must be pairwise identical. exit 0 ok, 2 = not deterministic.
set -u
cd /verif
N="${1:-2000}"
FAIL=0
export VERIF_DIR=/tmp/selftest.$$; mkdir -p "$VERIF_DIR"; cp known_findings.txt "$VERIF_DIR/"
./sim/gen_shadow.sh
( cd sim && cargo build --release --offline -q 2>&1 | grep -E "^error" -A5 )
for ID in C02 C03 C04 C05 C06 C07 C08 C10 C11 C13 C15 C16 C18 C01 C14 C19; do
  case "$ID" in C01|C14|C19) BIN=sim/target/release/syssim;; *) BIN=sim/target/release/muxsim;; esac
  REF=""
  for T in 16 1 5 16; do
    H=$($BIN check $ID --runs "$N" --no-evidence --dump-digests --threads $T 2>/dev/null | grep '^DIGEST' | md5sum | cut -d' ' -f1)
    if [ -z "$REF" ]; then REF="$H"; elif [ "$REF" != "$H" ]; then echo "NOT DETERMINISTIC: $ID threads=$T $H != $REF"; FAIL=2; fi
  done
  echo "$ID $REF"
done
# thread-level models under shuttle: same VERIF_SEED => same schedules (counts of schedules, distinct
# schedules and scheduling decisions per property), in two fresh processes
for ID in C12 C07 C08; do
  REF=""
  for K in 1 2; do
    /verif/shuttle/run.sh $ID --tier quick >/dev/null 2>&1
    H=$(python3 -c "import json;d=json.load(open('/verif/shuttle/$ID-part.json'));d.pop('wall_s');print(json.dumps(d,sort_keys=True))" | md5sum | cut -d' ' -f1)
    if [ -z "$REF" ]; then REF="$H"; elif [ "$REF" != "$H" ]; then echo "NOT DETERMINISTIC: $ID (shuttle) $H != $REF"; FAIL=2; fi
  done
  echo "$ID(shuttle) $REF"
done
rm -rf "$VERIF_DIR"
exit $FAIL

//! `loom`'s API surface as used by penguin-mux (`src/loom.rs`, the crate's loom tests and the
//! verification models in `verif_loom.rs`), implemented over shuttle.
//!
//! Why: loom's partial-order reduction only reorders lock *acquisitions*; it never runs a thread
//! between another thread's acquire and release, so a `try_lock` that fails is never explored, and
//! it checks that every execution follows the same path, which code over tokio's (uninstrumented)
//! channels does not. shuttle's seeded random / PCT schedulers switch threads at every
//! synchronisation point and make no such assumption. One seed = one exactly repeatable schedule;
//! a failing schedule is printed by shuttle and can be replayed (`VERIF_SHUTTLE_REPLAY`).

pub mod sync {
    pub use shuttle::sync::{Arc, Mutex, MutexGuard, RwLock, RwLockReadGuard, RwLockWriteGuard};
    pub mod atomic {
        pub use shuttle::sync::atomic::{AtomicBool, AtomicU32, AtomicU64, AtomicUsize, Ordering};
    }
}

pub mod thread {
    pub use shuttle::thread::{spawn, yield_now, Builder, JoinHandle};
}

pub mod future {
    pub use shuttle::future::block_on;
    use std::task::Waker;

    /// `loom::future::AtomicWaker`: a waker slot. Mutual exclusion over a shuttle mutex makes
    /// `register` and `wake` scheduling points and linearizable.
    #[derive(Debug, Default)]
    pub struct AtomicWaker(shuttle::sync::Mutex<Option<Waker>>);
    impl AtomicWaker {
        pub fn new() -> Self {
            Self(shuttle::sync::Mutex::new(None))
        }
        pub fn register(&self, waker: Waker) {
            *self.0.lock().unwrap() = Some(waker);
        }
        pub fn register_by_ref(&self, waker: &Waker) {
            *self.0.lock().unwrap() = Some(waker.clone());
        }
        pub fn wake(&self) {
            let w = self.0.lock().unwrap().take();
            if let Some(w) = w {
                w.wake();
            }
        }
        pub fn take_waker(&self) -> Option<Waker> {
            self.0.lock().unwrap().take()
        }
    }
}

pub mod model {
    use std::path::PathBuf;

    /// `loom::model::Builder`: the fields the models set are accepted and ignored; `check` runs the
    /// closure under shuttle's random scheduler (`VERIF_SHUTTLE_ITERS` schedules, seed
    /// `VERIF_SEED`), or replays one schedule (`VERIF_SHUTTLE_REPLAY=<schedule string>`).
    #[derive(Debug, Default)]
    pub struct Builder {
        pub max_threads: usize,
        pub max_branches: usize,
        pub max_permutations: Option<usize>,
        pub max_duration: Option<std::time::Duration>,
        pub preemption_bound: Option<usize>,
        pub checkpoint_file: Option<PathBuf>,
        pub checkpoint_interval: usize,
        pub location: bool,
        pub log: bool,
    }
    impl Builder {
        pub fn new() -> Self {
            Self::default()
        }
        pub fn check<F>(&self, f: F)
        where
            F: Fn() + Sync + Send + 'static,
        {
            if let Ok(s) = std::env::var("VERIF_SHUTTLE_REPLAY") {
                shuttle::replay(f, &s);
                return;
            }
            let iters: usize = std::env::var("VERIF_SHUTTLE_ITERS").ok().and_then(|s| s.parse().ok()).unwrap_or(2000);
            let seed: u64 = std::env::var("VERIF_SEED").ok().and_then(|s| s.trim().parse().ok()).unwrap_or(20_260_924);
            let stats = std::sync::Arc::new(std::sync::Mutex::new(Stats::default()));
            let inner: Box<dyn shuttle::scheduler::Scheduler + Send> = if std::env::var("VERIF_SHUTTLE_SCHEDULER").as_deref() == Ok("pct") {
                Box::new(shuttle::scheduler::PctScheduler::new_from_seed(seed, 3, iters))
            } else {
                Box::new(shuttle::scheduler::RandomScheduler::new_from_seed(seed, iters))
            };
            let sched = Counting { inner, cur: 0xcbf2_9ce4_8422_2325, steps: 0, started: false, stats: stats.clone() };
            let mut cfg = shuttle::Config::new();
            cfg.failure_persistence = shuttle::FailurePersistence::Print;
            shuttle::Runner::new(sched, cfg).run(f);
            let st = stats.lock().unwrap();
            // the last execution is folded in by the `new_execution` call that ends the run
            println!("VERIF_SHUTTLE schedules={} distinct={} steps={}", st.executions, st.seen.len(), st.steps);
        }
    }

    #[derive(Default)]
    struct Stats {
        executions: usize,
        steps: usize,
        seen: std::collections::BTreeSet<u64>,
    }
    /// Wraps the seeded scheduler: hashes the sequence of tasks chosen in each execution (FNV-1a),
    /// so that the evidence can say how many of the sampled schedules were distinct.
    struct Counting {
        inner: Box<dyn shuttle::scheduler::Scheduler + Send>,
        cur: u64,
        steps: usize,
        started: bool,
        stats: std::sync::Arc<std::sync::Mutex<Stats>>,
    }
    impl shuttle::scheduler::Scheduler for Counting {
        fn new_execution(&mut self) -> Option<shuttle::scheduler::Schedule> {
            if self.started {
                let mut st = self.stats.lock().unwrap();
                st.executions += 1;
                st.steps += self.steps;
                st.seen.insert(self.cur);
            }
            self.started = true;
            self.cur = 0xcbf2_9ce4_8422_2325;
            self.steps = 0;
            self.inner.new_execution()
        }
        fn next_task(
            &mut self,
            runnable_tasks: &[&shuttle::scheduler::Task],
            current_task: Option<shuttle::scheduler::TaskId>,
            is_yielding: bool,
        ) -> Option<shuttle::scheduler::TaskId> {
            let t = self.inner.next_task(runnable_tasks, current_task, is_yielding);
            let v: usize = t.map_or(usize::MAX, usize::from);
            self.cur = (self.cur ^ (v as u64)).wrapping_mul(0x0000_0100_0000_01b3);
            self.steps += 1;
            t
        }
        fn next_u64(&mut self) -> u64 {
            self.inner.next_u64()
        }
    }
    pub fn model<F>(f: F)
    where
        F: Fn() + Sync + Send + 'static,
    {
        Builder::new().check(f)
    }
}
pub use model::model;

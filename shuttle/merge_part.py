#!/usr/bin/env python3
"""merge_part.py <evidence.json> <shuttle part.json>: fold the shuttle part into the evidence file."""
import json, sys
e = json.load(open(sys.argv[1])); l = json.load(open(sys.argv[2]))
c = e["coverage"]
c["thread_level_part_shuttle"] = l
c["evaluations"] += l["schedules"]; c["distinct_nontrivial"] += l["distinct_schedules"]
c["rule"] += " || " + l["rule"] + "; schedules are added to evaluations, distinct schedules to distinct_nontrivial"
c["components_real"] = c.get("components_real", []) + [x + " (shuttle part)" for x in l["components_real"]]
c["components_stub"] = c.get("components_stub", []) + [x + " (shuttle part)" for x in l["components_stub"]]
e["violations"] = e.get("violations", 0) + l["violations"]
e["wall_s"] += l["wall_s"]
e.setdefault("assumptions", []).append("shuttle part: schedules are sampled (seeded), not enumerated; shuttle treats every atomic ordering as SeqCst, so weak-memory outcomes are left to the loom part")
json.dump(e, open(sys.argv[1], "w"), indent=1)

#!/bin/bash
# /verif/shuttle/run.sh <C12|C07|C08> [--tier quick|thorough] [--replay <file>]
# E5: the in-crate thread-level models (penguin-mux/src/verif_loom.rs, the same code loom explores)
# under shuttle's seeded random scheduler. penguin-mux's sync shim resolves `loom::*` to
# /verif/shuttle/loomshim (loom's API over shuttle's primitives) through a shadow manifest, so no
# source of the repository changes. Where loom enumerates interleavings up to a preemption bound and
# prunes by dependence (and, for RwLock::try_write, never explores the failing outcome), shuttle
# samples whole schedules without a bound: VERIF_SEED picks them, a failing one is printed by shuttle
# as a schedule string, stored in the replay file and re-executed exactly by --replay.
set -u
ID="${1:-C12}"; shift || true
TIER="${VERIF_TIER:-quick}"; REPLAY=""
while [ $# -gt 0 ]; do case "$1" in --tier) TIER="$2"; shift 2;; --replay) REPLAY="$2"; shift 2;; *) shift;; esac; done
VERIF_DIR="${VERIF_DIR:-/verif}"
SH="$VERIF_DIR/shuttle"; [ -d "$SH/loomshim" ] || SH="$(cd "$(dirname "$0")" && pwd)"
if [ -n "$REPLAY" ]; then
  case "$REPLAY" in /*) ;; *) REPLAY="$(pwd)/$REPLAY";; esac
  [ -f "$REPLAY" ] || { echo "HARNESS ERROR: no such replay file $REPLAY"; exit 2; }
fi
SEED="${VERIF_SEED:-20260924}"
T0=$(date +%s.%N)
export CARGO_NET_OFFLINE=true
REPO="${VERIF_REPO:-/repo}"
LOG="$SH/build.log"
python3 "$SH/gen_shadow_mux.py" || { echo "HARNESS ERROR: shadow manifest generation failed (shuttle)"; exit 2; }
cmp -s "$REPO/Cargo.lock" "$SH/muxshadow/Cargo.lock.src" 2>/dev/null || { cp "$REPO/Cargo.lock" "$SH/muxshadow/Cargo.lock"; cp "$REPO/Cargo.lock" "$SH/muxshadow/Cargo.lock.src"; }
( cd "$SH/muxshadow" && cargo test --lib --release --offline --no-run ) > "$LOG" 2>&1 || { echo "BUILD FAILED (shuttle)"; grep -E "^error" -A 12 "$LOG" | head -40; exit 2; }
BIN=$(ls -t "$SH"/target/release/deps/penguin_mux-* 2>/dev/null | grep -v '\.d$' | head -1)
[ -x "$BIN" ] || { echo "HARNESS ERROR: no test binary (shuttle)"; exit 2; }
"$BIN" --list 2>/dev/null | grep -q verif_loom_task_drop_vs_locked_map || { echo "HARNESS ERROR: hook module verif_loom is not compiled in"; exit 2; }
mkdir -p "$VERIF_DIR/replays" "$VERIF_DIR/evidence"
test_of() {
  case "$1" in frames,*) echo verif_loom_stream_vs_frames;; *,w2,*) echo verif_loom_two_writers;; ids,*) echo verif_loom_flow_ids;; abort,*) echo verif_loom_abort_vs_request;; dropmap,*) echo verif_loom_task_drop_vs_locked_map;; *) echo verif_loom_writer_vs_task;; esac
}
run_one() { # scenario iterations seed [schedule] -> prints output
  local T; T=$(test_of "$1")
  if [ -n "${4:-}" ]; then
    VERIF_LOOM_SCENARIO="$1" VERIF_SHUTTLE_REPLAY="$4" "$BIN" $T --exact verif_loom::$T --nocapture --test-threads=1 2>&1
  else
    VERIF_LOOM_SCENARIO="$1" VERIF_SHUTTLE_ITERS="$2" VERIF_SEED="$3" "$BIN" $T --exact verif_loom::$T --nocapture --test-threads=1 2>&1
  fi
}
PAT="LOST WAKEUP|CONSERVATION|CREDIT|CLOSED|PROGRESS|FLOWID|ABORT|deadlock"
if [ -n "$REPLAY" ]; then
  SC=$(python3 -c "import json,sys;print(json.load(open(sys.argv[1]))['plan']['scenario'])" "$REPLAY") || exit 2
  SCHED=$(python3 -c "import json,sys;print(json.load(open(sys.argv[1]))['plan']['schedule'])" "$REPLAY") || exit 2
  OUT=$(run_one "$SC" 0 0 "$SCHED"); echo "$OUT" | grep -E "$PAT" | head -3 | cut -c1-400
  if echo "$OUT" | grep -q "test result: FAILED"; then
    if echo "$OUT" | grep -qE "$PAT"; then echo "VIOLATION property=$ID replay=$REPLAY"; exit 1; fi
    # the run failed inside shuttle's replay scheduler, not in an oracle: the recorded schedule does
    # not fit the code under test (its scheduling points changed). Search the same scenario again
    # with the recorded seed instead of trusting a schedule that no longer means anything.
    RS=$(python3 -c "import json,sys;print(json.load(open(sys.argv[1])).get('seed',20260924))" "$REPLAY")
    echo "replay: the recorded schedule does not fit this tree ($(echo "$OUT" | grep -E "schedule ended early|not runnable|panicked at" | head -1 | cut -c1-160)); searching scenario $SC again with seed $RS"
    OUT=$(run_one "$SC" 10000 "$RS")
    if echo "$OUT" | grep -q "test result: FAILED"; then echo "$OUT" | grep -E "$PAT" | head -3 | cut -c1-400; echo "VIOLATION property=$ID replay=$REPLAY"; exit 1; fi
  fi
  exit 0
fi
if [ "$TIER" = "thorough" ]; then IT=100000; else IT=10000; fi
python3 - "$SEED" "$ID" > "$SH/.scen.$$" <<'PY'
import sys, random
if sys.argv[2] == "C08":
    print("\n".join(f"abort,{t},{c}" for t in "ur" for c in "ob")); sys.exit(0)
if sys.argv[2] == "C07":
    two = ["7+7","7+7+9","0+7+7","7+0+7","1+2","7+7+7"]
    onep = ["7","7+9","0+7","9","7+7"]
    threep = ["7+7","7+7+9","7+9","0+7+7","1+2"]
    three = ["5+5+5","5+5+6","5+6+5","1+2+3"]
    sc  = [f"ids,{a},{x}" for a in ("oo","ob","bb") for x in two]
    sc += [f"ids,{a}p7,{x}" for a in ("o","b") for x in onep] + ["ids,op0,3","ids,bp0,0+3"]
    sc += [f"ids,{a}p7,{x}" for a in ("oo","ob","bb") for x in threep]
    sc += [f"ids,{a},{x}" for a in ("ooo","oob","obb") for x in three]
    # k: a pending local request (made first, takes the first scripted id) is acknowledged by the
    # peer on the task's thread while other threads draw the same id
    sc += [f"ids,{a},{x}" for a in ("ko","kb","koo","kob","kop7","kbp9") for x in ("7+7+9","7+7","7+9","7+7+7+9","0+7+7")]
    random.Random(int(sys.argv[1])).shuffle(sc)
    print("\n".join(sc)); sys.exit(0)
ops = ["a1","a2","c","a1+a1","a1+c","c+a1","a2+c","c+a2","a1+a2","a1+a1+c","a1+c+a1","c+a1+a1"]
sc = [f"{c},{p},{o}" for c in (0,1,2) for p in (1,2,3) for o in ops]
sc += [f"{c},w2,{o}" for c in (0,1,2,3) for o in ("none","a1","a2","c","a1+c","c+a1","a1+a1")]
random.Random(int(sys.argv[1])).shuffle(sc)
# the connection task dropped while another thread holds the flow map's lock
# (o = inside new_stream_channel's insertion, b = inside request_bind's), a writer parked on the stream
# a real stream (made by the task from the peer's Connect) used on one thread while another hands the
# task the peer's frames for it: credit x writer ops (w = poll_write, s = poll_shutdown) x frames
# (a<n> = Acknowledge, r = Reset, f = Finish, p = Push)
fr = [f"frames,{c},{w},{f}" for c in (0,1,2) for w in ("w","ww","www","ws","wsw","sw")
      for f in ("a1","a2","r","a1+r","r+a1","a1+a1","f","p+f","a1+f","p+a1+r")]
random.Random(int(sys.argv[1]) + 1).shuffle(fr)
sc = ["dropmap,o", "dropmap,b", "dropmap,m"] + sc + fr
print("\n".join(sc))
PY
N=0; EXEC=0; DIST=0; STEPS=0; VIOL=0; SAMPLES=""
while read -r SC; do
  N=$((N+1))
  OUT=$(run_one "$SC" "$IT" "$((SEED + N))")
  E=$(echo "$OUT" | sed -n 's/.*VERIF_SHUTTLE schedules=\([0-9]*\) distinct=\([0-9]*\) steps=\([0-9]*\).*/\1 \2 \3/p' | head -1)
  set -- $E; EXEC=$((EXEC+${1:-0})); DIST=$((DIST+${2:-0})); STEPS=$((STEPS+${3:-0}))
  [ $N -le 3 ] && SAMPLES="$SAMPLES{\"scenario\":\"$SC\",\"schedules\":${1:-0},\"distinct_schedules\":${2:-0}},"
  if echo "$OUT" | grep -q "test result: FAILED\|panicked"; then
    VIOL=$((VIOL+1))
    MSG=$(echo "$OUT" | grep -E "$PAT|panicked" | grep -v "test panicked in task" | head -2 | tr '\n' ' ' | cut -c1-400)
    SCHED=$(echo "$OUT" | awk 'f==2{print; exit} /^failing schedule:/{f=1; next} f==1 && /^"$/{f=2}')
    [ -n "$SCHED" ] || { echo "HARNESS ERROR: scenario $SC failed without a schedule: $MSG"; rm -f "$SH/.scen.$$"; exit 2; }
    R="$VERIF_DIR/replays/$ID-shuttle-$(echo "$SC" | tr ',+' '__').json"
    python3 - "$R" "$SC" "$SCHED" "$MSG" "$ID" "$((SEED + N))" <<'PY'
import json,sys
m=sys.argv[4]
cls=("flow-id-race" if sys.argv[5]=="C07" else "request-hangs-at-task-drop" if sys.argv[5]=="C08" else "writer-not-released-at-task-drop" if "DROPMAP" in m else "lost-wakeup" if "LOST WAKEUP" in m else "credit-race")
json.dump({"property":sys.argv[5],"engine":"shuttlesim","class":sys.argv[5]+":"+cls,"seed":int(sys.argv[6]),"plan":{"scenario":sys.argv[2],"schedule":sys.argv[3]},"expect":{"violation":m},"note":"schedule = shuttle's serialised failing schedule (every scheduling decision of the run); --replay re-executes exactly it"}, open(sys.argv[1],"w"), indent=1)
PY
    # the schedule must reproduce the failure before it is reported
    if ! run_one "$SC" 0 0 "$SCHED" | grep -q "test result: FAILED"; then echo "HARNESS ERROR: the schedule recorded for $SC does not reproduce the failure"; rm -f "$SH/.scen.$$"; exit 2; fi
    [ $VIOL -le 3 ] && { echo "violation scenario=$SC : $MSG"; echo "VIOLATION property=$ID replay=$R"; }
  elif [ -z "$E" ]; then
    echo "HARNESS ERROR: scenario $SC produced no result line"; echo "$OUT" | tail -5; rm -f "$SH/.scen.$$"; exit 2
  fi
done < "$SH/.scen.$$"
rm -f "$SH/.scen.$$"
T1=$(date +%s.%N)
python3 - "$SH/$ID-part.json" "$ID" "$N" "$EXEC" "$DIST" "$STEPS" "$VIOL" "$(echo "$T1 - $T0" | bc)" "[${SAMPLES%,}]" "$IT" "$SEED" <<'PY'
import json,sys
out,pid,n,ex,dist,steps,viol,wall,samples,it,seed=sys.argv[1:12]
what={"C12":"the loom part's writer/credit scenarios (initial credit x writer polls x scripts of acknowledge/disallow_write; two writers racing; a real stream's poll_write / poll_shutdown against the peer's frames in the task's frame handler) plus dropmap,o|b: a real Multiplexor/Task pair with an established stream whose writer is parked for credit, a second thread inside Multiplexor::insert_new_flow (holding the flow map's write lock) while the main thread drops the connection task; oracle for dropmap: once the task is gone the writer has been woken and its next poll says the stream is closed",
      "C07":"the loom part's flow-id scenarios (application threads in insert_new_flow against the connection task's Connect handling, id generator scripted to collide)",
      "C08":"the loom part's abort scenarios (the task's future dropped on one thread while another calls new_stream_channel / request_bind)"}[pid]
json.dump({"engine":"shuttlesim","scenarios":int(n),"schedules":int(ex),"distinct_schedules":int(dist),"scheduling_decisions":int(steps),"iterations_per_scenario":int(it),"seed":int(seed),"violations":int(viol),"wall_s":float(wall),"samples":json.loads(samples),
 "rule":"third part (shuttle): "+what+"; each of the "+n+" scenarios runs "+it+" whole schedules chosen by shuttle's random scheduler from VERIF_SEED+index, with no preemption bound; distinct_schedules = distinct sequences of scheduled threads (FNV-1a of the decisions), counted per scenario and summed; the same oracles as the loom part",
 "components_real":["the models of penguin-mux/src/verif_loom.rs unchanged","penguin_mux::loom shim resolved to /verif/shuttle/loomshim (shuttle Mutex, RwLock incl. try_write, atomics, thread, AtomicWaker over a shuttle Mutex)"],
 "components_stub":["thread scheduler (shuttle, sequentially consistent atomics only)","tokio mpsc / oneshot (real, not instrumented: atomic between scheduling points)"]}, open(out,"w"), indent=1)
PY
echo "$ID(shuttle) $TIER seed=$SEED scenarios=$N schedules=$EXEC distinct=$DIST violations=$VIOL"
[ $VIOL -gt 0 ] && exit 1
exit 0

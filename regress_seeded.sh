#!/bin/bash
# regress_seeded.sh [name-filter]: for every seeded change, apply it to /repo, run the quick checks
# named in its meta.json (detected_by), undo. Prints one line per change; exit 1 if any change is
# no longer detected by a check that used to detect it. Never leaves /repo modified.
cd /verif
FAIL=0
for d in seeded/*${1:-}*/; do
  n=$(basename "$d")
  ids=$(python3 -c "import json,sys; print(' '.join(json.load(open('$d/meta.json'))['detected_by'].keys()))")
  [ -z "$ids" ] && { echo "$n: no check listed"; continue; }
  out=$(./try_mutant.sh "/verif/$d/patch.diff" $ids 2>&1)
  if echo "$out" | grep -q "patch does not apply\|uncommitted"; then echo "$n: PATCH PROBLEM: $(echo "$out" | grep -m1 'apply\|uncommitted')"; FAIL=1; continue; fi
  res=""
  for id in $ids; do
    if echo "$out" | awk -v id="$id" '$0 ~ "^=== "id" "{f=1;next} /^=== /{f=0} f' | grep -q "VIOLATION property=${id%L}"; then res="$res $id:caught"; else res="$res $id:MISSED"; FAIL=1; fi
  done
  echo "$n:$res"
done
rm -f replays/C12-* 2>/dev/null
git -C /repo diff --quiet || { echo "/repo left modified!"; git -C /repo checkout -- .; }
exit $FAIL
